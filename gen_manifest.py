#!/usr/bin/env python3
"""Writes MANIFEST.json from the table below (run after adding/removing a monitor)."""
import json, os, subprocess
ROOT = os.path.dirname(os.path.abspath(__file__))

CHECKS = {
 "C01": ("history + reference model: loader/assembler output vs reference encoder and loader automaton", "§4 C01"),
 "C02": ("reference-model monitor: assemble vs independent reference encoder, parse(assemble(x)) == x over table-directed generation", "§4 C02"),
 "C03": ("reference-model monitor: rspirv parser vs independent reference acceptor over structured mutation", "§4 C03"),
 "C04": ("panic/UB monitor: catch_unwind + step-budget hook + decoder-event invariants in debug and release builds, Miri on parse_words/parse_bytes, ASan (thorough)", "§4 C04"),
 "C05": ("reference automaton vs loader over exhaustive short sequences and random long ones, state hook compared after every step", "§4 C05"),
 "C06": ("per-call oracle from the grammar table with unique argument markers + built-vs-loaded structural equality over generated Builder call stubs", "§4 C06"),
 "C07": ("independent text reader reconstructs the word stream from the disassembly; collision map over the run", "§4 C07"),
 "C08": ("exhaustive enumeration of 2^32 numbers per enum/mask against declaration text (release), Miri for invalid enum tags, FromStr name tables", "§4 C08"),
 "C09": ("exhaustive lookup over 65536 opcode numbers and all table entries against enums, frozen reference and spec anchors", "§4 C09"),
 "C10": ("history monitor against a type-width model, isolation re-parses, tracker instance hook events", "§4 C10"),
 "C11": ("decoder request scripts replayed against a decoder model; offset/limit invariants after every request; hook cross-check", "§4 C11"),
 "C12": ("Builder call histories: iff-rules on observed selection state, snapshot comparison around failed calls, invariant walk after every call", "§4 C12"),
 "C13": ("Builder id/type-dedup histories against counter and list models; next-id hook", "§4 C13"),
 "C14": ("scripted consumer answering at every callback position; protocol automaton over the callback log", "§4 C14"),
 "C15": ("exhaustive module shapes (2^13): traversals vs assemble() split by word counts vs construction order", "§4 C15"),
 "C16": ("exhaustive 787 opcodes x predicates vs hand-transcribed spec classes; Builder terminator behaviour observed per method", "§4 C16"),
 "C17": ("parser behaviour vs reflection vs frozen parameter/capability tables, exhaustive over enumerants and mask subsets", "§4 C17"),
 "C18": ("lifted module's Debug tree compared positionally with the generating abstract module", "§4 C18"),
 "C19": ("append/fetch histories against a Vec model with scripted equality; exhaustive short histories", "§4 C19"),
 "C20": ("rspirv-dis process runs compared with the in-process library result; exit status, stderr, valgrind memcheck", "§4 C20"),
}
LEVEL_TEXT = {
 "C08": "exploration, exhaustive in the thorough tier: every 32-bit number for every enum and mask is converted and compared with the declaration text; names and aliases all parsed; Miri covers the transmutes. Finite space, so enumeration is the right level.",
 "C09": "exploration, exhaustive: all 65536 numbers, all entries of the three tables. Content is compared with a frozen dump and hand anchors because the Khronos JSON is not available offline.",
 "C15": "exploration, exhaustive over the 2^13 presence combinations of a module's parts plus random sizes.",
 "C16": "exploration, exhaustive over opcodes x predicates and over all block-level Builder methods.",
 "C17": "exploration, exhaustive over enumerants and (thorough) all subsets of masks with at most 16 bits.",
}
DEFAULT_LEVEL = "exploration: the real code is run on generated, mutated and directed workloads while an independent oracle judges every execution; the property is universally quantified over inputs/histories, so this shows 'held on K executions', not a proof. Coverage numerators are reported in the evidence file."
NOTE = "Trusted base: the harness's reference models (reference encoder/parser, loader automaton, type-width model, decoder/builder/storage models), the hand-transcribed spec classes and anchors, and the frozen reference dump standing in for the Khronos grammar (not available offline)."

def built(pid):
    return os.path.exists(os.path.join(ROOT, "harness", "src", "mon", pid.lower() + ".rs"))

hooks = subprocess.run(["git", "-C", "/repo", "log", "--format=%h %s"], capture_output=True, text=True).stdout.splitlines()
hook_commits = [l.split()[0] for l in hooks if "verif hook" in l][::-1]

m = {
 "version": 1,
 "setup_cmd": "./setup.sh",
 "hooks": {
  "guard": "cargo feature verif-hooks on crate rspirv (off by default)",
  "enable": "the harness crate /verif/harness depends on /repo/rspirv with features=[\"verif-hooks\"]; every check rebuilds it from /repo's working tree",
  "baseline_off_cmd": "cd /repo && cargo test --workspace --no-fail-fast --offline",
  "source_commits": hook_commits,
  "add_only": True,
 },
 "engines": [
  {"name": "vmon", "path": "/verif/harness", "kind_free_text": "runtime monitors with reference models over generated, mutated and directed workloads (Rust, debug and release builds)", "serves_properties": sorted(p for p in CHECKS if built(p))},
  {"name": "miri", "path": "/verif/check", "kind_free_text": "the same monitors interpreted by Miri (UB detector) on small sharded workloads", "serves_properties": ["C04", "C08"]},
  {"name": "asan", "path": "/verif/check", "kind_free_text": "the same monitors built with AddressSanitizer (nightly, thorough tier)", "serves_properties": ["C04", "C11"]},
  {"name": "memcheck", "path": "/verif/check", "kind_free_text": "valgrind memcheck on the shipped rspirv-dis binary", "serves_properties": ["C20"]},
 ],
 "checks": [],
 "not_applicable": [],
 "notes": "All checks: ./check <ID> <quick|thorough>; VERIF_SEED selects the PRNG seed; exit 0 held / 1 violation / 2 inconclusive. Known findings: /verif/KNOWN_FINDINGS.txt.",
}
for pid in sorted(CHECKS):
    tech, ref = CHECKS[pid]
    if built(pid):
        m["checks"].append({
         "property_id": pid,
         "quick_cmd": f"./check {pid} quick",
         "thorough_cmd": f"./check {pid} thorough",
         "evidence_file": f"/verif/evidence/{pid}.json",
         "replay_cmd_template": "./check --replay {path}",
         "engine": "vmon",
         "level_claimed": {"category": "exploration", "text": LEVEL_TEXT.get(pid, DEFAULT_LEVEL), "design_ref": ref},
         "level_note": NOTE,
         "technique": tech,
        })
    else:
        m["not_applicable"].append({"property_id": pid, "reason": "monitor not built yet (planned, see DESIGN.md " + ref + "); not claimed until its check exists"})
json.dump(m, open(os.path.join(ROOT, "MANIFEST.json"), "w"), indent=1)
print(len(m["checks"]), "checks,", len(m["not_applicable"]), "not applicable")
