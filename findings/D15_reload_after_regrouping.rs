// Demonstration of known finding D15 (property C01) against the real code.
// Copy to /repo/rspirv/tests/d15.rs in a scratch worktree and run `cargo test -p rspirv --offline --test d15`:
// the assembled output of an ACCEPTED binary is rejected (or decoded differently) on reload, because the
// loader's regrouping moves `%8 = OpTypeInt 64 0` / `%9 = OpUndef %8` in front of the OpSwitch on %9, whose
// case literal was one word wide when %9 was still unknown.
use rspirv::binary::Assemble;
#[test]
fn reload_of_regrouped_module() {
    let w: Vec<u32> = vec![
        0x0723_0203, 0x0001_0600, 0, 20, 0,
        (3 << 16) | 14, 0, 1,                 // OpMemoryModel Logical GLSL450
        (2 << 16) | 19, 1,                    // %1 = OpTypeVoid
        (3 << 16) | 33, 2, 1,                 // %2 = OpTypeFunction %1
        (5 << 16) | 54, 1, 3, 0, 2,           // %3 = OpFunction %1 None %2
        (2 << 16) | 248, 4,                   // %4 = OpLabel
        (5 << 16) | 251, 9, 5, 7, 6,          // OpSwitch %9 %5  7 %6   (one-word literal: %9 unknown here)
        (1 << 16) | 56,                       // OpFunctionEnd
        (4 << 16) | 21, 8, 64, 0,             // %8 = OpTypeInt 64 0
        (3 << 16) | 1, 8, 9,                  // %9 = OpUndef %8
    ];
    let m = rspirv::dr::load_words(&w).expect("the loader accepts the input");
    let out = m.assemble();
    match rspirv::dr::load_words(&out) {
        Ok(m2) => assert_eq!(format!("{:?}", m.functions[0].blocks[0].instructions), format!("{:?}", m2.functions[0].blocks[0].instructions)),
        Err(e) => panic!("the assembled output is rejected on reload: {:?}", e), // observed: OperandError(LimitReached(128))
    }
}
