#!/bin/sh
# Builds the harness once (debug + release monitors, rspirv-dis). Offline.
set -e
cd "$(dirname "$0")"
exec python3 ./check --setup
