//! Comparison of a loaded `dr::Module` with the loader model's result.

use crate::model::MModule;
use crate::rs::show_inst;
use crate::spec::SECTION_NAMES;
use rspirv::dr;

fn section<'a>(m: &'a dr::Module, s: usize) -> Vec<&'a dr::Instruction> {
    match s {
        0 => m.capabilities.iter().collect(),
        1 => m.extensions.iter().collect(),
        2 => m.ext_inst_imports.iter().collect(),
        3 => m.memory_model.iter().collect(),
        4 => m.entry_points.iter().collect(),
        5 => m.execution_modes.iter().collect(),
        6 => m.debug_string_source.iter().collect(),
        7 => m.debug_names.iter().collect(),
        8 => m.debug_module_processed.iter().collect(),
        9 => m.annotations.iter().collect(),
        _ => m.types_global_values.iter().collect(),
    }
}

/// `src[i]` is the dr form of input instruction i. Returns (rule, description) of the first difference.
/// `single_memory_model`: when the input has several OpMemoryModel only the last survives (outside the
/// guarantees); the caller passes false to skip that section.
pub fn compare_module(m: &dr::Module, mm: &MModule, src: &[dr::Instruction], judge_memory_model: bool) -> Option<(String, String)> {
    for s in 0..11 {
        if s == 3 && !judge_memory_model {
            continue;
        }
        let got = section(m, s);
        let want: Vec<&dr::Instruction> = mm.sections[s].iter().map(|i| &src[*i]).collect();
        if got != want {
            let pos = got.iter().zip(want.iter()).position(|(a, b)| a != b).unwrap_or(got.len().min(want.len()));
            let culprit = want.get(pos).or(got.get(pos)).map(|i| i.class.opname).unwrap_or("?");
            return Some((format!("section:{}:{}", SECTION_NAMES[s], culprit), format!("section {} holds {} instruction(s), the logical layout assigns {}; first difference at #{}: loaded {:?}, expected {:?}", SECTION_NAMES[s], got.len(), want.len(), pos, got.get(pos).map(|i| show_inst(i)), want.get(pos).map(|i| show_inst(i)))));
        }
    }
    if m.functions.len() != mm.functions.len() {
        return Some(("function-count".into(), format!("{} functions loaded, {} in the stream", m.functions.len(), mm.functions.len())));
    }
    for (fi, (f, mf)) in m.functions.iter().zip(mm.functions.iter()).enumerate() {
        if f.def.as_ref() != Some(&src[mf.def]) {
            return Some(("function-def".into(), format!("function {} does not own its defining instruction: {:?}", fi, f.def.as_ref().map(show_inst))));
        }
        if f.end.as_ref() != Some(&src[mf.end]) {
            return Some(("function-end".into(), format!("function {} does not own its ending instruction: {:?}", fi, f.end.as_ref().map(show_inst))));
        }
        let params: Vec<&dr::Instruction> = mf.params.iter().map(|i| &src[*i]).collect();
        if f.parameters.iter().collect::<Vec<_>>() != params {
            return Some(("function-parameters".into(), format!("function {} parameters differ", fi)));
        }
        if f.blocks.len() != mf.blocks.len() {
            return Some(("block-count".into(), format!("function {}: {} blocks loaded, {} in the stream", fi, f.blocks.len(), mf.blocks.len())));
        }
        for (bi, (b, mb)) in f.blocks.iter().zip(mf.blocks.iter()).enumerate() {
            if b.label.as_ref() != Some(&src[mb.label]) {
                return Some(("block-label".into(), format!("function {} block {} does not own its label", fi, bi)));
            }
            let want: Vec<&dr::Instruction> = mb.insts.iter().map(|i| &src[*i]).collect();
            let got: Vec<&dr::Instruction> = b.instructions.iter().collect();
            if got != want {
                let pos = got.iter().zip(want.iter()).position(|(a, b)| a != b).unwrap_or(got.len().min(want.len()));
                let culprit = want.get(pos).or(got.get(pos)).map(|i| i.class.opname).unwrap_or("?");
                return Some((format!("block-content:{}", culprit), format!("function {} block {}: loaded {} instruction(s), stream has {}; first difference at #{}", fi, bi, got.len(), want.len(), pos)));
            }
            // the terminator is last and occurs nowhere else
            let n = b.instructions.len();
            for (k, i) in b.instructions.iter().enumerate() {
                let term = crate::spec::is_block_terminator(i.class.opname);
                if (k + 1 == n) != term {
                    return Some((format!("block-terminator:{}", i.class.opname), format!("function {} block {}: instruction #{} Op{} {} a block terminator but is {}the last instruction", fi, bi, k, i.class.opname, if term { "is" } else { "is not" }, if k + 1 == n { "" } else { "not " })));
                }
            }
        }
    }
    None
}
