//! Adapters around the rspirv API under test: recording consumer, error classification.

use crate::refparse::Fault;
use crate::util::{catch, Panic};
use rspirv::binary::{Consumer, DecodeError, ParseAction, ParseState};
use rspirv::dr;

#[derive(Default)]
pub struct RecConsumer {
    pub log: Vec<&'static str>,
    pub header: Option<dr::ModuleHeader>,
    pub insts: Vec<dr::Instruction>,
}

impl Consumer for RecConsumer {
    fn initialize(&mut self) -> ParseAction {
        self.log.push("initialize");
        ParseAction::Continue
    }
    fn finalize(&mut self) -> ParseAction {
        self.log.push("finalize");
        ParseAction::Continue
    }
    fn consume_header(&mut self, h: dr::ModuleHeader) -> ParseAction {
        self.log.push("header");
        self.header = Some(h);
        ParseAction::Continue
    }
    fn consume_instruction(&mut self, i: dr::Instruction) -> ParseAction {
        self.log.push("inst");
        self.insts.push(i);
        ParseAction::Continue
    }
}

pub struct Parsed {
    pub result: Result<(), ParseState>,
    pub rec: RecConsumer,
    pub steps: u64,
}

/// Parses `bytes` with a recording consumer under a logical step budget (H1): more than
/// `16 * len/4 + 256` decoder/parser steps count as non-termination.
pub fn parse_rec(bytes: &[u8]) -> Result<Parsed, Panic> {
    let mut rec = RecConsumer::default();
    let budget = 16 * (bytes.len() as u64 / 4) + 256;
    rspirv::verif::set_step_budget(Some(budget));
    // the two byte-based entry points do the same job: alternate between them by content
    let mix = bytes.iter().take(64).fold(0u8, |a, b| a.rotate_left(1) ^ *b);
    let direct = bytes.len() % 8 >= 4 || mix & 1 == 1;
    // a byte slice may start at any address: place the input at every alignment modulo 4 (chosen by content)
    let placed = Placed::new(bytes, (mix >> 1) as usize % 4);
    let bytes = placed.get();
    let r = catch(|| if direct { rspirv::binary::Parser::new(bytes, &mut rec).parse() } else { rspirv::binary::parse_bytes(bytes, &mut rec) });
    let steps = rspirv::verif::steps();
    rspirv::verif::set_step_budget(None);
    r.map(|result| Parsed { result, rec, steps })
}

/// A copy of a byte string starting at an address congruent to `align` modulo 4.
pub struct Placed {
    buf: Vec<u8>,
    start: usize,
    len: usize,
}
impl Placed {
    pub fn new(bytes: &[u8], align: usize) -> Placed {
        let mut buf = vec![0xAAu8; bytes.len() + 8];
        let base = buf.as_ptr() as usize;
        let start = (4 + align - base % 4) % 4;
        buf[start..start + bytes.len()].copy_from_slice(bytes);
        Placed { buf, start, len: bytes.len() }
    }
    pub fn get(&self) -> &[u8] {
        &self.buf[self.start..self.start + self.len]
    }
}

pub fn parse_rec_words(words: &[u32]) -> Result<Parsed, Panic> {
    let mut rec = RecConsumer::default();
    let budget = 16 * (words.len() as u64) + 256;
    rspirv::verif::set_step_budget(Some(budget));
    let r = catch(|| rspirv::binary::parse_words(words, &mut rec));
    let steps = rspirv::verif::steps();
    rspirv::verif::set_step_budget(None);
    r.map(|result| Parsed { result, rec, steps })
}

/// Many-to-one mapping from rspirv's parse state to the property's fault classes, plus the
/// instruction number and byte offset the error carries (when it carries them).
pub fn classify_state(s: &ParseState) -> Option<(Fault, Option<usize>, Option<usize>)> {
    Some(match s {
        ParseState::HeaderIncomplete(e) => (Fault::HeaderIncomplete, decode_offset(e), None),
        ParseState::HeaderIncorrect => (Fault::HeaderIncorrect, None, None),
        ParseState::EndiannessUnsupported => (Fault::Endianness, None, None),
        ParseState::WordCountZero(o, i) => (Fault::WordCountZero, Some(*o), Some(*i)),
        ParseState::OpcodeUnknown(o, i, _) => (Fault::OpcodeUnknown, Some(*o), Some(*i)),
        ParseState::OperandExpected(o, i) => (Fault::Missing, Some(*o), Some(*i)),
        ParseState::OperandExceeded(o, i) => (Fault::Surplus, Some(*o), Some(*i)),
        ParseState::TypeUnsupported(o, i) => (Fault::TypeUnsupported, Some(*o), Some(*i)),
        ParseState::SpecConstantOpIntegerIncorrect(o, i) => (Fault::SpecConstOp, Some(*o), Some(*i)),
        ParseState::OperandError(e) => match e {
            DecodeError::StreamExpected(o) | DecodeError::LimitReached(o) => (Fault::Missing, Some(*o), None),
            other => (Fault::Undecodable, decode_offset(other), None),
        },
        // (wildcard: a state the pinned tree does not have is no fault class of the property either; the harness
        // must keep compiling when the library gains error variants)
        #[allow(unreachable_patterns)]
        ParseState::Complete | ParseState::ConsumerStopRequested | ParseState::ConsumerError(_) | _ => return None,
    })
}

pub fn decode_offset(e: &DecodeError) -> Option<usize> {
    let d = format!("{:?}", e);
    let inner = d.split('(').nth(1)?;
    let num: String = inner.chars().take_while(|c| c.is_ascii_digit()).collect();
    num.parse().ok()
}

pub fn state_name(s: &ParseState) -> String {
    let d = format!("{:?}", s);
    match s {
        ParseState::OperandError(e) => format!("OperandError({})", format!("{:?}", e).split('(').next().unwrap_or("")),
        _ => d.split('(').next().unwrap_or("").to_string(),
    }
}

/// Equality of dr::Module values section by section (dr::Module has no PartialEq).
pub fn module_diff(a: &dr::Module, b: &dr::Module) -> Option<String> {
    if a.header != b.header {
        return Some(format!("header {:?} vs {:?}", a.header, b.header));
    }
    let secs: [(&str, &Vec<dr::Instruction>, &Vec<dr::Instruction>); 10] = [
        ("capabilities", &a.capabilities, &b.capabilities),
        ("extensions", &a.extensions, &b.extensions),
        ("ext_inst_imports", &a.ext_inst_imports, &b.ext_inst_imports),
        ("entry_points", &a.entry_points, &b.entry_points),
        ("execution_modes", &a.execution_modes, &b.execution_modes),
        ("debug_string_source", &a.debug_string_source, &b.debug_string_source),
        ("debug_names", &a.debug_names, &b.debug_names),
        ("debug_module_processed", &a.debug_module_processed, &b.debug_module_processed),
        ("annotations", &a.annotations, &b.annotations),
        ("types_global_values", &a.types_global_values, &b.types_global_values),
    ];
    for (n, x, y) in secs {
        if x != y {
            let i = x.iter().zip(y.iter()).position(|(p, q)| p != q).unwrap_or(x.len().min(y.len()));
            return Some(format!("section {} differs at #{}: {:?} vs {:?} (lengths {} / {})", n, i, x.get(i).map(show_inst), y.get(i).map(show_inst), x.len(), y.len()));
        }
    }
    if a.memory_model != b.memory_model {
        return Some(format!("memory_model {:?} vs {:?}", a.memory_model.as_ref().map(show_inst), b.memory_model.as_ref().map(show_inst)));
    }
    if a.functions.len() != b.functions.len() {
        return Some(format!("{} vs {} functions", a.functions.len(), b.functions.len()));
    }
    for (fi, (f, g)) in a.functions.iter().zip(b.functions.iter()).enumerate() {
        if f.def != g.def || f.end != g.end || f.parameters != g.parameters {
            return Some(format!("function {} def/end/parameters differ", fi));
        }
        if f.blocks.len() != g.blocks.len() {
            return Some(format!("function {}: {} vs {} blocks", fi, f.blocks.len(), g.blocks.len()));
        }
        for (bi, (p, q)) in f.blocks.iter().zip(g.blocks.iter()).enumerate() {
            if p.label != q.label || p.instructions != q.instructions {
                let i = p.instructions.iter().zip(q.instructions.iter()).position(|(x, y)| x != y).unwrap_or(p.instructions.len().min(q.instructions.len()));
                return Some(format!("function {} block {} differs at #{}: {:?} vs {:?}", fi, bi, i, p.instructions.get(i).map(show_inst), q.instructions.get(i).map(show_inst)));
            }
        }
    }
    None
}

pub fn show_inst(i: &dr::Instruction) -> String {
    format!("Op{} rt={:?} rid={:?} {:?}", i.class.opname, i.result_type, i.result_id, i.operands)
}
