//! Table-directed generator of grammar-conforming abstract instructions (from the frozen grammar).

use crate::generated::decls;
use crate::gram::{db, AInst, AOp, AVal, RefInst, K, Q};
use crate::model::{NumTy, TypeModel, Width};
use crate::spec;
use crate::util::Rng;

pub const STRING_POOL: &[&str] = &[
    "",
    "a",
    "ab",
    "abc",
    "abcd",
    "abcde",
    "abcdef",
    "abcdefg",
    "abcdefgh",
    "abcdefghi",
    "main",
    "GLSL.std.450",
    "OpenCL.std",
    "NonSemantic.Shader.DebugInfo.100",
    "NonSemantic.DebugPrintf",
    "quote\"inside",
    "back\\slash",
    "tab\there",
    "nl\nx",
    "é",
    "日本",
    "x😀y",
    " lead",
    "trail ",
    "%1",
    "Op",
    "a b c",
    "\u{1}\u{7f}",
    "'",
    "\\\"",
    "SPV_KHR_x",
    "0",
    "-1",
    "1.5",
    // a dictionary of strings real producers write (extension names, source extensions, file names)
    "SPV_KHR_non_semantic_info",
    "SPV_EXT_mesh_shader",
    "SPV_KHR_storage_buffer_storage_class",
    "GL_EXT_mesh_shader",
    "GL_NV_mesh_shader",
    "GL_GOOGLE_include_directive",
    "GL_KHR_shader_subgroup_basic",
    "OpenCL.std.100",
    "main.frag",
    "Linked by SPIR-V Tools Linker",
];

#[derive(Clone, Copy, Debug, PartialEq, Eq)]
pub enum Form {
    /// no optional operands, no variadic repetitions
    Min,
    /// every optional operand present, 1..=3 repetitions of a variadic operand
    Max,
    Random,
}

#[derive(Clone, Copy, Debug, PartialEq, Eq)]
pub enum LitStyle {
    /// unique marker values (histories stay unambiguous)
    Marker,
    /// random / extreme values
    Random,
}

#[derive(Clone, Debug)]
pub struct Gen {
    pub next_id: u32,
    pub types: TypeModel,
    /// numeric type declarations emitted so far (id, type)
    pub num_types: Vec<(u32, NumTy)>,
    /// value ids whose propagated numeric type is known
    pub typed_values: Vec<(u32, NumTy)>,
    pub lit: LitStyle,
    /// force the first operand of this kind to this value (systematic enumerant passes)
    pub forces: Vec<(K, u32)>,
    /// allow nested OpSpecConstantOp payloads outside the spec's list (ordinary operand kinds only)
    pub max_variadic: usize,
    /// string to use next (systematic string-length passes)
    pub force_string: Option<String>,
    /// only pick mask bits / enumerants that take no parameters
    pub param_free: bool,
    /// Some(state): ids are drawn from "interesting" values and ranges (powers of two +-1, powers of ten,
    /// 0x3FFFFF, 16-bit/20-bit/32-bit edges, mid-range and full-range random), still unique
    pub scatter: Option<u64>,
    used_ids: std::collections::HashSet<u32>,
    /// probability (in 1/8) that an id operand names an id that occurred before (a result id defined earlier,
    /// or an id mentioned by an earlier operand) instead of a fresh one: def-use links, repeated operands and
    /// - through `inst` giving a mentioned id to a later result - uses before the definition
    pub link_8: u32,
    defined: Vec<u32>,
    mentioned: Vec<u32>,
    /// ids used as OpSwitch selectors while still undefined; a later typed value may take one of them as its
    /// result id, so that the same selector is sized once as unknown and once by its type
    early_selectors: Vec<u32>,
}

/// 32-bit patterns that are special for some reading of the word: decimal fractions as f32, halves widened to
/// f32, small and negative integers, the extremes, NaNs and infinities, sub-normals.
pub fn interesting_bits32(rng: &mut Rng) -> u32 {
    match rng.below(8) {
        0 => (*rng.pick(&[0.1f32, 0.2, 0.3, 1.5, 2.5, 1e-3, 3.14159, 1e10, 16777217.0, 1.0e-40])).to_bits(),
        1 => (rng.below(2048) as u32) << 13 | ((rng.below(256) as u32) << 23),
        2 => rng.below(300) as u32,
        3 => (-(rng.below(300) as i32)) as u32,
        4 => *rng.pick(&[0u32, 1, 0x7fff_ffff, 0x8000_0000, 0xffff_ffff, 0x7f80_0000, 0xff80_0000, 0x7fc0_0000, 0x7f80_0001, 0x0000_0001, 0x0080_0000, 0x8000_0001, 0x00ff, 0xff00, 0xffff, 0x1_0000]),
        5 => rng.word() & 0xffff_e000,
        6 => rng.word() & 0xffff,
        _ => (rng.word() as f32 / 1000.0).to_bits(),
    }
}
/// 64-bit patterns: doubles that are exactly representable as f32 (and are not "short"), decimal fractions,
/// values whose high word is all zeros / all ones (32-bit values widened), extremes, NaNs.
pub fn interesting_bits64(rng: &mut Rng) -> u64 {
    match rng.below(8) {
        0 => (f32::from_bits(interesting_bits32(rng)) as f64).to_bits(),
        1 => (*rng.pick(&[0.1f64, 0.2, 0.3, 1.5, 1e-3, 3.141592653589793, 1e300, 9007199254740993.0, 5e-324])).to_bits(),
        2 => rng.word() as u64,
        3 => (rng.word() as i32 as i64) as u64,
        4 => *rng.pick(&[0u64, 1, u64::MAX, i64::MAX as u64, 1 << 63, 0x7ff0_0000_0000_0000, 0xfff0_0000_0000_0000, 0x7ff8_0000_0000_0000, 0xffff_ffff, 0x1_0000_0000, 0x8000_0000, 0xffff_ffff_0000_0000]),
        5 => ((f32::from_bits(rng.word()) as f64) * 1.0).to_bits(),
        6 => (rng.word() as u64) << 32,
        _ => ((rng.word() as f64) / 1000.0).to_bits(),
    }
}

pub fn interesting_ids() -> &'static Vec<u32> {
    static V: std::sync::OnceLock<Vec<u32>> = std::sync::OnceLock::new();
    V.get_or_init(|| {
        let mut v = vec![0x3F_FFFEu32, 0x3F_FFFF, 0x40_0000, 0x40_0001, u32::MAX, u32::MAX - 1, 0x7FFF_FFFF, 255, 256, 257];
        for k in 7..32u32 {
            let p = 1u32 << k;
            v.extend([p - 1, p, p.wrapping_add(1)]);
        }
        let mut t = 100u64;
        while t < u32::MAX as u64 {
            v.extend([(t - 1) as u32, t as u32, (t + 1) as u32]);
            t *= 10;
        }
        v.sort();
        v.dedup();
        v
    })
}

impl Gen {
    pub fn new(start_id: u32) -> Gen {
        Gen { next_id: start_id, types: TypeModel::new(), num_types: vec![], typed_values: vec![], lit: LitStyle::Marker, forces: vec![], max_variadic: 3, force_string: None, param_free: false, scatter: None, used_ids: Default::default(), link_8: 0, defined: vec![], mentioned: vec![], early_selectors: vec![] }
    }
    pub fn fresh(&mut self) -> u32 {
        if let Some(state) = self.scatter {
            let mut st = state;
            for _ in 0..64 {
                st = crate::util::mix(st);
                let r = st >> 8;
                let cand = match st & 7 {
                    0 | 1 => {
                        let l = interesting_ids();
                        l[(r % l.len() as u64) as usize]
                    }
                    2 => 1 + (r % 1000) as u32,
                    3 | 4 => 1 + (r % 100_000) as u32,
                    5 => 1 + (r % (1 << 22)) as u32,
                    6 => {
                        // just above an interesting value, so that runs cross boundaries
                        let l = interesting_ids();
                        l[(r % l.len() as u64) as usize].wrapping_add(1 + ((r >> 20) % 4) as u32)
                    }
                    _ => r as u32,
                };
                if cand != 0 && self.used_ids.insert(cand) {
                    self.scatter = Some(st);
                    if cand >= self.next_id {
                        self.next_id = cand.saturating_add(1);
                    }
                    return cand;
                }
            }
            self.scatter = Some(st);
        }
        loop {
            let v = self.next_id;
            self.next_id = self.next_id.saturating_add(1);
            if self.scatter.is_none() || self.used_ids.insert(v) {
                return v;
            }
        }
    }
    /// A generator with a randomly chosen id policy: sequential from 1000, scattered over interesting
    /// values and ranges, or sequential starting just below an interesting value (so that consecutive
    /// ids cross it, as a Builder's counter would).
    pub fn with_id_policy(rng: &mut Rng) -> Gen {
        let mut g = Gen::with_id_policy_unlinked(rng);
        g.link_8 = *rng.pick(&[0u32, 0, 3, 6]);
        g
    }
    /// An id operand: fresh, or (see `link_8`) one that occurred before.
    fn id_operand(&mut self, rng: &mut Rng) -> u32 {
        if self.link_8 > 0 && (rng.below(8) as u32) < self.link_8 {
            let from_def = !self.defined.is_empty() && (self.mentioned.is_empty() || rng.chance(2, 3));
            if from_def {
                return *rng.pick(&self.defined);
            }
            if !self.mentioned.is_empty() {
                return *rng.pick(&self.mentioned);
            }
        }
        let id = self.fresh();
        if self.link_8 > 0 && self.mentioned.len() < 64 {
            self.mentioned.push(id);
        }
        id
    }
    fn with_id_policy_unlinked(rng: &mut Rng) -> Gen {
        match rng.below(3) {
            0 => Gen::new(1000),
            1 => {
                let mut g = Gen::new(1000);
                g.scatter_ids(rng.next());
                g
            }
            _ => {
                let l = interesting_ids();
                let base = l[rng.below(l.len())];
                Gen::new(base.saturating_sub(rng.below(40) as u32).max(1).min(u32::MAX - 100_000))
            }
        }
    }
    /// Switches to scattered ids (see `scatter`).
    pub fn scatter_ids(&mut self, seed: u64) {
        self.scatter = Some(seed | 1);
    }
    fn lit32(&mut self, rng: &mut Rng) -> u32 {
        match self.lit {
            LitStyle::Marker => self.fresh(),
            LitStyle::Random => rng.word(),
        }
    }
    fn string(&mut self, rng: &mut Rng) -> String {
        if let Some(s) = self.force_string.take() {
            return s;
        }
        if rng.chance(1, 48) {
            // occasionally a long string (word-boundary and buffer-size edge lengths)
            let len = *rng.pick(&[62usize, 63, 64, 65, 127, 128, 255, 256, 257, 1000, 1023, 1024, 1025, 3000]);
            let mut out = String::with_capacity(len + 4);
            while out.len() < len {
                if rng.chance(1, 40) && out.len() + 3 <= len {
                    out.push('日');
                } else {
                    out.push((b'a' + rng.below(26) as u8) as char);
                }
            }
            return out;
        }
        rng.pick(STRING_POOL).to_string()
    }

    /// Declares a numeric type (OpTypeInt / OpTypeFloat) and records it in the model.
    pub fn type_decl(&mut self, ty: NumTy) -> AInst {
        let id = self.fresh();
        let inst = match ty {
            NumTy::Int(w, s) => AInst::named("TypeInt", None, Some(id), vec![AOp::lit(w), AOp::lit(s as u32)]),
            NumTy::Float(w) => AInst::named("TypeFloat", None, Some(id), vec![AOp::lit(w)]),
        };
        self.types.observe(&inst);
        self.num_types.push((id, ty));
        inst
    }

    /// Records an instruction in the generator's own type model (call for every emitted instruction).
    pub fn observe(&mut self, inst: &AInst) {
        self.types.observe(inst);
        if let Some(r) = inst.rid {
            if self.link_8 > 0 && self.defined.len() < 512 {
                self.defined.push(r);
            }
        }
        if let (Some(r), Some(_t)) = (inst.rid, inst.rtype) {
            if let Some(ty) = self.types.get(r) {
                self.typed_values.push((r, ty));
            }
        }
    }

    fn context_literal(&mut self, rng: &mut Rng, type_id: u32) -> Option<AVal> {
        match self.types.width(type_id) {
            Width::One => Some(AVal::W(match self.lit {
                LitStyle::Marker => self.fresh(),
                LitStyle::Random => {
                    if rng.chance(1, 2) {
                        rng.word()
                    } else {
                        interesting_bits32(rng)
                    }
                }
            })),
            Width::Two => Some(AVal::W64(match self.lit {
                LitStyle::Marker => ((self.fresh() as u64) << 32) | self.fresh() as u64,
                LitStyle::Random => {
                    if rng.chance(1, 2) {
                        ((rng.word() as u64) << 32) | rng.word() as u64
                    } else {
                        interesting_bits64(rng)
                    }
                }
            })),
            Width::Unsupported | Width::Ambiguous => None,
        }
    }

    /// A result type id suitable for OpConstant/OpSpecConstant: a declared numeric type of
    /// supported width, or (sometimes) an undeclared id (one word).
    fn constant_type(&mut self, rng: &mut Rng) -> u32 {
        let ok: Vec<u32> = self.num_types.iter().filter(|(id, _)| matches!(self.types.width(*id), Width::One | Width::Two)).map(|(id, _)| *id).collect();
        if ok.is_empty() || rng.chance(1, 8) {
            self.fresh()
        } else {
            *rng.pick(&ok)
        }
    }

    fn enum_value(&mut self, rng: &mut Rng, k: K) -> u32 {
        if let Some(pos) = self.forces.iter().position(|(fk, _)| *fk == k) {
            return self.forces.remove(pos).1;
        }
        let d = db();
        match decls::kind_class(k) {
            0 => {
                let vals = d.enum_values(k);
                vals[rng.below(vals.len())].1
            }
            _ => {
                let mut bits = d.mask_bits(k);
                if self.param_free {
                    bits.retain(|b| d.params_seq(k, *b).is_empty());
                    if bits.is_empty() {
                        return 0;
                    }
                    return match rng.below(3) {
                        0 => 0,
                        1 => *rng.pick(&bits),
                        _ => bits.iter().filter(|_| rng.chance(1, 2)).fold(0, |a, b| a | b),
                    };
                }
                match rng.below(6) {
                    0 => 0,
                    1 => *rng.pick(&bits),
                    2 => d.mask_all(k),
                    _ => {
                        let mut v = 0;
                        for b in bits {
                            if rng.chance(1, 3) {
                                v |= b;
                            }
                        }
                        v
                    }
                }
            }
        }
    }

    /// Generates the concrete operands of one occurrence of logical operand kind `k`.
    pub fn logical(&mut self, rng: &mut Rng, k: K, inst_so_far: &AInst, depth: u32) -> Option<Vec<AOp>> {
        let mut out = vec![];
        match k {
            K::IdResultType | K::IdResult => return None,
            K::IdRef | K::IdScope | K::IdMemorySemantics => {
                let id = self.id_operand(rng);
                out.push(AOp::w(k, id))
            }
            K::LiteralInteger | K::LiteralFloat => {
                let v = self.lit32(rng);
                out.push(AOp::w(k, v))
            }
            K::LiteralExtInstInteger => {
                let v = match self.lit {
                    LitStyle::Marker => self.fresh(),
                    LitStyle::Random => rng.below(200) as u32,
                };
                out.push(AOp::w(k, v))
            }
            K::LiteralString => {
                let s = self.string(rng);
                out.push(AOp { kind: k, val: AVal::S(s) })
            }
            K::LiteralContextDependentNumber => {
                let t = inst_so_far.rtype?;
                let v = self.context_literal(rng, t)?;
                out.push(AOp { kind: k, val: v })
            }
            K::PairLiteralIntegerIdRef => {
                // OpSwitch: literal typed by the selector (first operand)
                let sel = inst_so_far.ops.first()?.word()?;
                let v = self.context_literal(rng, sel)?;
                out.push(AOp { kind: K::LiteralContextDependentNumber, val: v });
                out.push(AOp::id(self.fresh()));
            }
            K::PairIdRefLiteralInteger => {
                out.push(AOp::id(self.fresh()));
                let v = self.lit32(rng);
                out.push(AOp::lit(v));
            }
            K::PairIdRefIdRef => {
                out.push(AOp::id(self.fresh()));
                out.push(AOp::id(self.fresh()));
            }
            K::LiteralSpecConstantOpInteger => {
                if depth > 0 {
                    return None;
                }
                let name = *rng.pick(&spec::SPEC_CONSTANT_OP_PAYLOADS);
                let d = db();
                let ri = d.by_name.get(name).map(|i| &d.insts[*i])?;
                out.push(AOp::w(k, ri.opcode as u32));
                let shell = AInst::new(ri.opcode, None, None, vec![]);
                let nested = self.operands(rng, ri, Form::Random, &shell, depth + 1)?;
                out.extend(nested);
            }
            k if decls::kind_class(k) < 2 => {
                let v = self.enum_value(rng, k);
                out.push(AOp::w(k, v));
                for (pk, _pq) in db().params_seq(k, v) {
                    // a variadic parameter (BankBitsINTEL) is generated with exactly one value, which
                    // every reading of the grammar accepts
                    out.extend(self.logical(rng, pk, inst_so_far, depth)?);
                }
            }
            _ => return None,
        }
        Some(out)
    }

    /// Generates all non-result operands of `ri` in `form`.
    pub fn operands(&mut self, rng: &mut Rng, ri: &RefInst, form: Form, shell: &AInst, depth: u32) -> Option<Vec<AOp>> {
        let mut cur = shell.clone();
        let mut optional_open = true;
        for (k, q) in &ri.ops {
            if matches!(k, K::IdResultType | K::IdResult) {
                continue;
            }
            let reps = match q {
                Q::One => 1,
                Q::ZeroOrOne => {
                    let want = match form {
                        Form::Min => false,
                        Form::Max => true,
                        Form::Random => rng.chance(1, 2),
                    };
                    // optional operands may only appear as a trailing run: once one is omitted, all
                    // later ones are omitted too
                    if optional_open && want {
                        1
                    } else {
                        optional_open = false;
                        0
                    }
                }
                Q::ZeroOrMore => {
                    if !optional_open {
                        0
                    } else {
                        match form {
                            Form::Min => 0,
                            Form::Max => rng.range(1, self.max_variadic.max(1)),
                            Form::Random => {
                                if rng.chance(1, 64) {
                                    rng.range(8, 120)
                                } else {
                                    rng.below(self.max_variadic + 1)
                                }
                            }
                        }
                    }
                }
            };
            for _ in 0..reps {
                let v = self.logical(rng, *k, &cur, depth)?;
                cur.ops.extend(v);
            }
        }
        Some(cur.ops[shell.ops.len()..].to_vec())
    }

    /// Generates a conforming instruction for `ri`. Does not record it; call `observe`.
    pub fn inst(&mut self, rng: &mut Rng, ri: &RefInst, form: Form) -> Option<AInst> {
        let has_rtype = ri.ops.iter().any(|(k, _)| *k == K::IdResultType);
        let has_rid = ri.ops.iter().any(|(k, _)| *k == K::IdResult);
        let ctx_literal = ri.ops.iter().any(|(k, _)| *k == K::LiteralContextDependentNumber);
        let rtype = if has_rtype {
            Some(if ctx_literal {
                self.constant_type(rng)
            } else if !self.num_types.is_empty() && rng.chance(1, 3) {
                // result typed by a declared numeric type: its result id becomes a typed value
                rng.pick(&self.num_types).0
            } else {
                self.fresh()
            })
        } else {
            None
        };
        let numeric_result = rtype.map(|t| self.num_types.iter().any(|(id, _)| *id == t)).unwrap_or(false);
        let rid = if has_rid {
            // now and then the definition of an id that earlier operands already mentioned (use before definition)
            Some(if numeric_result && !ctx_literal && !self.early_selectors.is_empty() && rng.chance(1, 2) {
                self.early_selectors.pop().unwrap()
            } else if self.link_8 > 0 && !self.mentioned.is_empty() && rng.chance(1, 12) {
                let i = rng.below(self.mentioned.len());
                self.mentioned.swap_remove(i)
            } else {
                self.fresh()
            })
        } else {
            None
        };
        let mut shell = AInst::new(ri.opcode, rtype, rid, vec![]);
        if ri.opname == "Switch" {
            // choose the selector among typed values so that 64-bit case literals occur
            let usable: Vec<u32> = self.typed_values.iter().filter(|(id, _)| matches!(self.types.width(*id), Width::One | Width::Two)).map(|(id, _)| *id).collect();
            let sel = if !usable.is_empty() && rng.chance(3, 4) {
                *rng.pick(&usable)
            } else {
                let f = self.fresh();
                if self.early_selectors.len() < 8 {
                    self.early_selectors.push(f);
                }
                f
            };
            shell.ops.push(AOp::id(sel));
            shell.ops.push(AOp::id(self.fresh()));
            let n = match form {
                Form::Min => 0,
                Form::Max => rng.range(1, self.max_variadic.max(1)),
                Form::Random => rng.below(self.max_variadic + 1),
            };
            for _ in 0..n {
                let v = self.logical(rng, K::PairLiteralIntegerIdRef, &shell, 0)?;
                shell.ops.extend(v);
            }
            return Some(shell);
        }
        let ops = self.operands(rng, ri, form, &shell, 0)?;
        shell.ops = ops;
        Some(shell)
    }
}

/// All numeric types the generators declare: every supported width plus unsupported ones.
pub fn supported_num_types() -> Vec<NumTy> {
    vec![
        NumTy::Int(8, false),
        NumTy::Int(8, true),
        NumTy::Int(16, false),
        NumTy::Int(16, true),
        NumTy::Int(32, false),
        NumTy::Int(32, true),
        NumTy::Int(64, false),
        NumTy::Int(64, true),
        NumTy::Float(16),
        NumTy::Float(32),
        NumTy::Float(64),
    ]
}
