//! Boundary-value ("scale") modules: well-formed, loadable modules that sit on count / size / value
//! thresholds which random generation practically never reaches: hundreds of parameters or distinct
//! types, many extended-instruction imports, instructions of the maximum word count, 64 KiB strings,
//! realistic non-semantic imports, storage-class pairs, literal consumers in a second function; and two
//! families of realistic idioms: imported / exported function declarations with linkage decorations, and
//! line-debug info with repeated identical instructions.

use crate::gram::{db, AInst, AOp, AVal, K};
use crate::model::{NumTy, TypeModel, Width};
use crate::util::Rng;

pub const N_VARIANTS: u64 = 12;

pub const IMPORT_NAMES: &[&str] = &[
    "GLSL.std.450",
    "OpenCL.std",
    "NonSemantic.Shader.DebugInfo.100",
    "NonSemantic.DebugPrintf",
    "NonSemantic.ClspvReflection.5",
    "NonSemantic.Shader.DebugInfo.",
    "OpenCL.DebugInfo.100",
    "DebugInfo",
    "SPV_AMD_shader_ballot",
    "GLSL.std.450 ",
    "OpenCL.std.100",
    "GLSL.std.450.1",
    "NonSemantic.Shader.DebugInfo.100 ",
    "",
];

fn lit(v: u32) -> AOp {
    AOp::lit(v)
}

fn literal_for(model: &TypeModel, ty: u32, rng: &mut Rng) -> Option<AVal> {
    match model.width(ty) {
        Width::One => Some(AVal::W(rng.word())),
        Width::Two => Some(AVal::W64(((rng.word() as u64) << 32) | rng.word() as u64)),
        _ => None,
    }
}

/// Returns (label, instructions). `variant` selects the family, `rng` the exact threshold.
pub fn scale_module(rng: &mut Rng, variant: u64) -> (String, Vec<AInst>) {
    let d = db();
    let mut id = 0u32;
    let mut fresh = || {
        id += 1;
        id
    };
    let mut v: Vec<AInst> = vec![AInst::named("MemoryModel", None, None, vec![AOp::w(K::AddressingModel, 0), AOp::w(K::MemoryModel, 1)])];
    let void = fresh();
    v.push(AInst::named("TypeVoid", None, Some(void), vec![]));
    let fnty = fresh();
    v.push(AInst::named("TypeFunction", None, Some(fnty), vec![AOp::id(void)]));
    let open_fn = |v: &mut Vec<AInst>, f: u32, l: u32| {
        v.push(AInst::named("Function", Some(void), Some(f), vec![AOp::w(K::FunctionControl, 0), AOp::id(fnty)]));
        v.push(AInst::named("Label", None, Some(l), vec![]));
    };
    let close_fn = |v: &mut Vec<AInst>| {
        v.push(AInst::named("Return", None, None, vec![]));
        v.push(AInst::named("FunctionEnd", None, None, vec![]));
    };
    match variant {
        0 => {
            // a function with very many parameters
            let k = if rng.chance(1, 12) { *rng.pick(&[65_535usize, 65_536, 65_537, 70_000]) } else { *rng.pick(&[1usize, 16, 64, 127, 128, 253, 254, 255, 256, 257, 300, 1024]) };
            let f = fresh();
            v.push(AInst::named("Function", Some(void), Some(f), vec![AOp::w(K::FunctionControl, 0), AOp::id(fnty)]));
            for _ in 0..k {
                let p = fresh();
                v.push(AInst::named("FunctionParameter", Some(void), Some(p), vec![]));
            }
            let l = fresh();
            v.push(AInst::named("Label", None, Some(l), vec![]));
            close_fn(&mut v);
            (format!("function with {} parameters", k), v)
        }
        1 => {
            // very many distinct numeric types, then literal consumers of the LATE ones
            let n = *rng.pick(&[200usize, 254, 255, 256, 257, 258, 259, 300, 363]);
            let mut model = TypeModel::new();
            let mut all: Vec<NumTy> = vec![];
            for w in 1..=128u32 {
                all.push(NumTy::Int(w, false));
                all.push(NumTy::Int(w, true));
                all.push(NumTy::Float(w));
            }
            // supported widths last, so that the late types have literals to check
            let supported = |t: &NumTy| matches!(t, NumTy::Int(8, _) | NumTy::Int(16, _) | NumTy::Int(32, _) | NumTy::Int(64, _) | NumTy::Float(16) | NumTy::Float(32) | NumTy::Float(64));
            let mut early: Vec<NumTy> = all.iter().filter(|t| !supported(t)).cloned().collect();
            let mut late: Vec<NumTy> = all.iter().filter(|t| supported(t)).cloned().collect();
            rng.shuffle(&mut early);
            rng.shuffle(&mut late);
            early.truncate(n.saturating_sub(late.len()));
            let mut ids = vec![];
            for t in early.iter().chain(late.iter()) {
                let tid = fresh();
                let inst = match t {
                    NumTy::Int(w, s) => AInst::named("TypeInt", None, Some(tid), vec![lit(*w), lit(*s as u32)]),
                    NumTy::Float(w) => AInst::named("TypeFloat", None, Some(tid), vec![lit(*w)]),
                };
                model.observe(&inst);
                v.push(inst);
                ids.push(tid);
            }
            let mut consts = vec![];
            for tid in ids.iter().rev().take(late.len()) {
                if let Some(val) = literal_for(&model, *tid, rng) {
                    let c = fresh();
                    let inst = AInst::named(if rng.chance(1, 2) { "Constant" } else { "SpecConstant" }, Some(*tid), Some(c), vec![AOp { kind: K::LiteralContextDependentNumber, val }]);
                    model.observe(&inst);
                    v.push(inst);
                    consts.push(c);
                }
            }
            let (f, l) = (fresh(), fresh());
            open_fn(&mut v, f, l);
            let mut first = true;
            for c in consts.iter().take(6) {
                if !first {
                    let l2 = fresh();
                    v.push(AInst::named("Label", None, Some(l2), vec![]));
                }
                first = false;
                let mut ops = vec![AOp::id(*c), AOp::id(fresh())];
                for _ in 0..rng.below(3) {
                    if let Some(val) = literal_for(&model, *c, rng) {
                        ops.push(AOp { kind: K::LiteralContextDependentNumber, val });
                        ops.push(AOp::id(fresh()));
                    }
                }
                v.push(AInst::named("Switch", None, None, ops));
            }
            if first {
                v.push(AInst::named("Return", None, None, vec![]));
            }
            v.push(AInst::named("FunctionEnd", None, None, vec![]));
            (format!("{} distinct numeric types", ids.len()), v)
        }
        2 | 5 => {
            // many extended-instruction imports (recognised and not), each used inside a block
            let k = if variant == 2 { *rng.pick(&[1usize, 2, 3, 4, 5, 6, 8, 9, 10, 12, 17, 33]) } else { rng.range(1, 6) };
            let mut sets = vec![];
            for i in 0..k {
                let name = if variant == 2 { if rng.chance(1, 6) { *rng.pick(IMPORT_NAMES) } else if i % 2 == 0 { "GLSL.std.450" } else { "OpenCL.std" } } else { *rng.pick(IMPORT_NAMES) };
                let s = fresh();
                v.push(AInst::named("ExtInstImport", None, Some(s), vec![AOp::s(name)]));
                sets.push((s, name));
            }
            let (f, l) = (fresh(), fresh());
            open_fn(&mut v, f, l);
            for (s, name) in &sets {
                for _ in 0..rng.range(1, 3) {
                    let num = if name.starts_with("GLSL") {
                        d.glsl[rng.below(d.glsl.len())].opcode
                    } else if name.starts_with("OpenCL.std") {
                        d.cl[rng.below(d.cl.len())].opcode
                    } else {
                        *rng.pick(&[0u32, 1, 2, 3, 23, 24, 28, 29, 35, 100, 101, 102, 103, 104, 105, 200])
                    };
                    let mut ops = vec![AOp::id(*s), AOp::w(K::LiteralExtInstInteger, num)];
                    for _ in 0..rng.below(4) {
                        ops.push(AOp::id(fresh()));
                    }
                    let r = fresh();
                    v.push(AInst::named("ExtInst", Some(void), Some(r), ops));
                }
            }
            // the same instruction number through every set, back to back (a number means different things in
            // different sets; the set decides)
            for _ in 0..rng.below(3) {
                let num = 1 + rng.below(81) as u32;
                for (s, _name) in &sets {
                    let r = fresh();
                    v.push(AInst::named("ExtInst", Some(void), Some(r), vec![AOp::id(*s), AOp::w(K::LiteralExtInstInteger, num), AOp::id(fresh())]));
                }
            }
            close_fn(&mut v);
            (format!("{} ext-inst imports{}", k, if variant == 5 { " (realistic names)" } else { "" }), v)
        }
        3 => {
            // one instruction at (or just below) the maximum word count 0xFFFF
            let total = *rng.pick(&[0xFFFFusize, 0xFFFE, 0xFFFD, 0x8000, 0x7FFF, 0xFFFF, 0xFFFF]);
            let inst = match rng.below(4) {
                0 => AInst::named("TypeStruct", None, Some(fresh()), (0..total - 2).map(|i| AOp::id(100_000 + i as u32)).collect()),
                1 => {
                    // OpString: 1 + 1 + string words
                    let words = total - 2;
                    let len = words * 4 - 1 - rng.below(4);
                    AInst::named("String", None, Some(fresh()), vec![AOp { kind: K::LiteralString, val: AVal::S("s".repeat(len)) }])
                }
                2 => AInst::named("ConstantComposite", Some(void), Some(fresh()), (0..total - 3).map(|i| AOp::id(200_000 + i as u32)).collect()),
                _ => AInst::named("Decorate", None, None, {
                    // UserSemantic decoration carrying a string that fills the instruction
                    let words = total - 3;
                    vec![AOp::id(void), AOp::w(K::Decoration, 5635), AOp { kind: K::LiteralString, val: AVal::S("u".repeat(words * 4 - 1)) }]
                }),
            };
            let label = format!("Op{} of {} words", inst.opname(), inst.enc().len());
            v.push(inst);
            (label, v)
        }
        4 => {
            // very long strings (64 KiB boundary)
            let len = *rng.pick(&[65_531usize, 65_532, 65_535, 65_536, 65_537, 70_000, 131_072, 200_000]);
            let mut s = String::with_capacity(len);
            while s.len() < len {
                s.push((b'a' + (s.len() % 26) as u8) as char);
            }
            // a string longer than the word-count field allows must be split over several instructions:
            // OpSource + OpSourceContinued each carry at most 0xFFFF words
            let mut rest: &str = &s;
            let mut firstinst = true;
            while !rest.is_empty() || firstinst {
                let take = rest.len().min(0xFFF0 * 4);
                let (a, b) = rest.split_at(take);
                if firstinst {
                    v.push(AInst::named("Source", None, None, vec![AOp::w(K::SourceLanguage, 2), lit(450), AOp::id(void), AOp { kind: K::LiteralString, val: AVal::S(a.to_string()) }]));
                } else {
                    v.push(AInst::named("SourceContinued", None, None, vec![AOp { kind: K::LiteralString, val: AVal::S(a.to_string()) }]));
                }
                firstinst = false;
                rest = b;
            }
            (format!("source text of {} bytes", len), v)
        }
        6 => {
            // pointer / variable storage-class pairs at module scope and inside a block
            let scs = d.enum_values(K::StorageClass);
            let n = scs.len();
            // half of the time one of the classes front ends actually use (Function first among them)
            let a = if rng.chance(1, 2) { *rng.pick(&[7u32, 7, 6, 4, 1, 2, 12, 0]) } else { scs[rng.below(n)].1 };
            let b = if rng.chance(2, 3) { a } else { scs[rng.below(n)].1 };
            let t = fresh();
            v.push(AInst::named("TypeInt", None, Some(t), vec![lit(32), lit(0)]));
            let p = fresh();
            v.push(AInst::named("TypePointer", None, Some(p), vec![AOp::w(K::StorageClass, a), AOp::id(t)]));
            let g = fresh();
            v.push(AInst::named("Variable", Some(p), Some(g), vec![AOp::w(K::StorageClass, b)]));
            let u = fresh();
            v.push(AInst::named("Undef", Some(p), Some(u), vec![]));
            let (f, l) = (fresh(), fresh());
            open_fn(&mut v, f, l);
            let loc = fresh();
            v.push(AInst::named("Variable", Some(p), Some(loc), vec![AOp::w(K::StorageClass, b), AOp::id(g)]));
            close_fn(&mut v);
            (format!("pointer storage class {} / variable storage class {}", a, b), v)
        }
        7 => {
            // literal consumers in a SECOND function, typed by module-scope values
            let mut model = TypeModel::new();
            let tys = [NumTy::Int(64, false), NumTy::Int(64, true), NumTy::Float(64), NumTy::Int(32, true), NumTy::Int(16, false)];
            let mut tids = vec![];
            for t in tys.iter() {
                let tid = fresh();
                let inst = match t {
                    NumTy::Int(w, s) => AInst::named("TypeInt", None, Some(tid), vec![lit(*w), lit(*s as u32)]),
                    NumTy::Float(w) => AInst::named("TypeFloat", None, Some(tid), vec![lit(*w)]),
                };
                model.observe(&inst);
                v.push(inst);
                tids.push(tid);
            }
            let mut vals = vec![];
            for tid in &tids {
                let c = fresh();
                let inst = match rng.below(3) {
                    0 => AInst::named("Undef", Some(*tid), Some(c), vec![]),
                    1 => AInst::named("ConstantNull", Some(*tid), Some(c), vec![]),
                    _ => AInst::named("Constant", Some(*tid), Some(c), vec![AOp { kind: K::LiteralContextDependentNumber, val: literal_for(&model, *tid, rng).unwrap() }]),
                };
                model.observe(&inst);
                v.push(inst);
                vals.push(c);
            }
            for _ in 0..rng.range(1, 3) {
                let (f, l) = (fresh(), fresh());
                open_fn(&mut v, f, l);
                // values defined inside an earlier function's body are candidates too (the width is decided by
                // what precedes the consumer in the binary, not by scopes)
                for _ in 0..rng.below(3) {
                    let tid = *rng.pick(&tids);
                    let c = fresh();
                    let inst = if rng.chance(1, 2) { AInst::named("Undef", Some(tid), Some(c), vec![]) } else { AInst::named("IAdd", Some(tid), Some(c), vec![AOp::id(*rng.pick(&vals)), AOp::id(*rng.pick(&vals))]) };
                    model.observe(&inst);
                    v.push(inst);
                    vals.push(c);
                }
                close_fn(&mut v);
            }
            let (f, l) = (fresh(), fresh());
            open_fn(&mut v, f, l);
            let sel = if rng.chance(1, 2) { *vals.last().unwrap() } else { *rng.pick(&vals) };
            let mut ops = vec![AOp::id(sel), AOp::id(fresh())];
            for _ in 0..rng.range(1, 3) {
                ops.push(AOp { kind: K::LiteralContextDependentNumber, val: literal_for(&model, sel, rng).unwrap() });
                ops.push(AOp::id(fresh()));
            }
            v.push(AInst::named("Switch", None, None, ops));
            v.push(AInst::named("FunctionEnd", None, None, vec![]));
            ("switch in a later function on a module-scope value".to_string(), v)
        }
        11 => {
            // very many typed values (module scope and inside an earlier function's body), then literal
            // consumers in a later function on early, late and body-defined ones
            let n = *rng.pick(&[255usize, 256, 257, 1023, 1025, 4095, 4096, 4097, 4100, 5000, 65_535, 65_537]);
            let n = if n > 10_000 && !rng.chance(1, 4) { 4097 + rng.below(64) } else { n };
            let mut model = TypeModel::new();
            let tys = [NumTy::Int(64, false), NumTy::Int(32, true), NumTy::Float(64), NumTy::Int(16, false), NumTy::Int(64, true)];
            let mut tids = vec![];
            for t in tys.iter() {
                let tid = fresh();
                let inst = match t {
                    NumTy::Int(w, s) => AInst::named("TypeInt", None, Some(tid), vec![lit(*w), lit(*s as u32)]),
                    NumTy::Float(w) => AInst::named("TypeFloat", None, Some(tid), vec![lit(*w)]),
                };
                model.observe(&inst);
                v.push(inst);
                tids.push(tid);
            }
            let in_body = rng.below(n + 1).min(n / 2 + rng.below(8));
            let mut vals: Vec<u32> = vec![];
            for _ in 0..n - in_body {
                let c = fresh();
                let inst = AInst::named(if rng.chance(1, 2) { "Undef" } else { "ConstantNull" }, Some(*rng.pick(&tids)), Some(c), vec![]);
                model.observe(&inst);
                v.push(inst);
                vals.push(c);
            }
            let (f, l) = (fresh(), fresh());
            open_fn(&mut v, f, l);
            let mut body_vals: Vec<u32> = vec![];
            for _ in 0..in_body {
                let c = fresh();
                let inst = AInst::named("Undef", Some(*rng.pick(&tids)), Some(c), vec![]);
                model.observe(&inst);
                v.push(inst);
                body_vals.push(c);
            }
            close_fn(&mut v);
            let (f2, l2) = (fresh(), fresh());
            open_fn(&mut v, f2, l2);
            let mut first = true;
            let mut picks: Vec<u32> = vec![];
            for src in [&vals, &body_vals] {
                if let (Some(a), Some(b)) = (src.first(), src.last()) {
                    picks.extend([*a, *b, *rng.pick(src)]);
                }
            }
            for sel in picks {
                if !first {
                    v.push(AInst::named("Label", None, Some(fresh()), vec![]));
                }
                first = false;
                let mut ops = vec![AOp::id(sel), AOp::id(fresh())];
                for _ in 0..rng.range(1, 3) {
                    if let Some(val) = literal_for(&model, sel, rng) {
                        ops.push(AOp { kind: K::LiteralContextDependentNumber, val });
                        ops.push(AOp::id(fresh()));
                    }
                }
                v.push(AInst::named("Switch", None, None, ops));
            }
            v.push(AInst::named("FunctionEnd", None, None, vec![]));
            (format!("{} typed values ({} inside an earlier function's body), switches in a later function", n, in_body), v)
        }
        9 => {
            // linkage: declarations (functions without a body) and definitions in any arrangement, some of
            // them decorated Import / Export / LinkOnceODR by name; also decorations of the same kind on
            // non-function ids, on definitions, and functions without any decoration
            let nf = rng.range(1, 7);
            let fids: Vec<u32> = (0..nf).map(|_| 1000 + rng.below(40) as u32 * 3).collect::<std::collections::BTreeSet<_>>().into_iter().collect();
            let mut order = fids.clone();
            rng.shuffle(&mut order);
            let has_body: Vec<bool> = order.iter().map(|_| rng.chance(1, 2)).collect();
            let mut m: Vec<AInst> = vec![];
            if rng.chance(3, 4) {
                m.push(AInst::named("Capability", None, None, vec![AOp::w(K::Capability, 5)]));
            }
            m.push(AInst::named("MemoryModel", None, None, vec![AOp::w(K::AddressingModel, 0), AOp::w(K::MemoryModel, 1)]));
            for f in &order {
                if rng.chance(1, 3) {
                    m.push(AInst::named("Name", None, None, vec![AOp::id(*f), AOp::s(&format!("fn{}", f))]));
                }
            }
            let mut n_imp = 0;
            for (i, f) in order.iter().enumerate() {
                let target = if rng.chance(1, 8) { void } else { *f };
                let lt = match rng.below(8) {
                    0 => 0,
                    1 => 2,
                    2 => {
                        continue;
                    }
                    _ => {
                        if has_body[i] && rng.chance(3, 4) {
                            0
                        } else {
                            1
                        }
                    }
                };
                n_imp += (lt == 1) as usize;
                m.push(AInst::named("Decorate", None, None, vec![AOp::id(target), AOp::w(K::Decoration, 41), AOp::s(&format!("fn{}", f)), AOp::w(K::LinkageType, lt)]));
                if rng.chance(1, 6) {
                    m.push(AInst::named("Decorate", None, None, vec![AOp::id(target), AOp::w(K::Decoration, 0)]));
                }
            }
            m.push(AInst::named("TypeVoid", None, Some(void), vec![]));
            m.push(AInst::named("TypeFunction", None, Some(fnty), vec![AOp::id(void)]));
            // now and then the prototype / definition pair of one function under the SAME id (what a naive
            // linker input looks like): a body-less copy in front of a definition
            let twice: Option<usize> = if rng.chance(1, 4) { (0..order.len()).find(|i| has_body[*i]) } else { None };
            for (i, f) in order.iter().enumerate() {
                if twice == Some(i) {
                    m.push(AInst::named("Function", Some(void), Some(*f), vec![AOp::w(K::FunctionControl, 0), AOp::id(fnty)]));
                    m.push(AInst::named("FunctionEnd", None, None, vec![]));
                }
                m.push(AInst::named("Function", Some(void), Some(*f), vec![AOp::w(K::FunctionControl, 0), AOp::id(fnty)]));
                if has_body[i] {
                    m.push(AInst::named("Label", None, Some(*f + 1), vec![]));
                    m.push(AInst::named("Return", None, None, vec![]));
                }
                m.push(AInst::named("FunctionEnd", None, None, vec![]));
            }
            (format!("{} functions ({} with a body, {} import decorations) in arrangement {:?}", order.len(), has_body.iter().filter(|b| **b).count(), n_imp, has_body), m)
        }
        10 => {
            // line-debug info and repeated identical instructions: the same OpLine before several
            // instructions, OpNoLine, duplicates in the global sections
            let mut m: Vec<AInst> = vec![];
            for _ in 0..rng.range(1, 3) {
                m.push(AInst::named("Capability", None, None, vec![AOp::w(K::Capability, 1)]));
            }
            for _ in 0..rng.below(3) {
                m.push(AInst::named("Extension", None, None, vec![AOp::s("SPV_KHR_non_semantic_info")]));
            }
            m.push(AInst::named("MemoryModel", None, None, vec![AOp::w(K::AddressingModel, 0), AOp::w(K::MemoryModel, 1)]));
            let file = fresh();
            m.push(AInst::named("String", None, Some(file), vec![AOp::s("shader.frag")]));
            let file2 = fresh();
            m.push(AInst::named("String", None, Some(file2), vec![AOp::s("shader.frag")]));
            for _ in 0..rng.below(4) {
                m.push(AInst::named("Name", None, None, vec![AOp::id(void), AOp::s("main")]));
            }
            for _ in 0..rng.below(4) {
                m.push(AInst::named("Decorate", None, None, vec![AOp::id(void), AOp::w(K::Decoration, 0)]));
            }
            let line = |rng: &mut Rng| {
                let f = if rng.chance(1, 5) { file2 } else { file };
                if rng.chance(1, 6) {
                    AInst::named("NoLine", None, None, vec![])
                } else {
                    AInst::named("Line", None, None, vec![AOp::id(f), lit(1 + rng.below(2) as u32), lit(rng.below(2) as u32)])
                }
            };
            if rng.chance(1, 2) {
                m.push(line(rng));
            }
            m.push(AInst::named("TypeVoid", None, Some(void), vec![]));
            if rng.chance(1, 2) {
                m.push(line(rng));
            }
            m.push(AInst::named("TypeFunction", None, Some(fnty), vec![AOp::id(void)]));
            let mut n_line = 0;
            for _ in 0..rng.range(1, 3) {
                let f = fresh();
                m.push(AInst::named("Function", Some(void), Some(f), vec![AOp::w(K::FunctionControl, 0), AOp::id(fnty)]));
                for _ in 0..rng.range(1, 3) {
                    let l = fresh();
                    m.push(AInst::named("Label", None, Some(l), vec![]));
                    for _ in 0..rng.below(7) {
                        if rng.chance(2, 3) {
                            m.push(line(rng));
                            n_line += 1;
                        }
                        if rng.chance(2, 3) {
                            m.push(AInst::named("Nop", None, None, vec![]));
                        }
                    }
                    // structured control flow as a debug-info emitting front end writes it: merge instruction,
                    // line info for the branch, then the terminator
                    if rng.chance(1, 2) {
                        let (mb, cb) = (fresh(), fresh());
                        if rng.chance(1, 2) {
                            m.push(AInst::named("SelectionMerge", None, None, vec![AOp::id(mb), AOp::w(K::SelectionControl, 0)]));
                        } else {
                            m.push(AInst::named("LoopMerge", None, None, vec![AOp::id(mb), AOp::id(cb), AOp::w(K::LoopControl, 0)]));
                        }
                        for _ in 0..rng.below(3) {
                            m.push(line(rng));
                            n_line += 1;
                        }
                        match rng.below(3) {
                            0 => m.push(AInst::named("Branch", None, None, vec![AOp::id(cb)])),
                            1 => m.push(AInst::named("BranchConditional", None, None, vec![AOp::id(void), AOp::id(mb), AOp::id(cb)])),
                            _ => m.push(AInst::named("Return", None, None, vec![])),
                        }
                        continue;
                    }
                    if rng.chance(1, 2) {
                        m.push(line(rng));
                    }
                    m.push(AInst::named("Return", None, None, vec![]));
                }
                m.push(AInst::named("FunctionEnd", None, None, vec![]));
            }
            (format!("line-debug info ({} OpLine/OpNoLine inside blocks) with repeated identical instructions", n_line), m)
        }
        _ => {
            // many functions / many blocks / many instructions in one block
            let nf = if rng.chance(1, 12) { *rng.pick(&[4095usize, 4096, 4097, 65_535, 65_536, 65_537]) } else { *rng.pick(&[1usize, 2, 64, 255, 256, 257]) };
            for _ in 0..nf {
                let (f, l) = (fresh(), fresh());
                open_fn(&mut v, f, l);
                for _ in 0..rng.below(3) {
                    v.push(AInst::named("Nop", None, None, vec![]));
                }
                close_fn(&mut v);
            }
            (format!("{} functions", nf), v)
        }
    }
}
