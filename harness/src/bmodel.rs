//! Builder call machinery: argument sources for the generated call stubs, method semantics derived
//! from the method name, and the per-call oracle (expected instruction from the grammar table).

use crate::generated::builder_stubs::{MethodInfo, METHODS};
use crate::generated::decls;
use crate::gram::{db, kind_by_name, kind_name, RefInst, K, Q};
use crate::util::Rng;
use rspirv::dr::{self, InsertPoint, Operand};
use std::collections::HashMap;
use std::sync::OnceLock;

pub enum CallOut {
    Unit,
    Word(u32),
    ResWord(Result<u32, dr::Error>),
    ResUnit(Result<(), dr::Error>),
}

impl CallOut {
    pub fn is_err(&self) -> bool {
        matches!(self, CallOut::ResWord(Err(_)) | CallOut::ResUnit(Err(_)))
    }
    pub fn word(&self) -> Option<u32> {
        match self {
            CallOut::Word(w) | CallOut::ResWord(Ok(w)) => Some(*w),
            _ => None,
        }
    }
    pub fn err_name(&self) -> Option<String> {
        match self {
            CallOut::ResWord(Err(e)) | CallOut::ResUnit(Err(e)) => Some(format!("{:?}", e).split('(').next().unwrap_or("").to_string()),
            _ => None,
        }
    }
}

#[derive(Clone, Debug, PartialEq)]
pub enum ArgV {
    Word(u32),
    OptWord(Option<u32>),
    InsertPoint(String),
    Lit32(u32),
    Lit64(u64),
    Byte(u8),
    Operands(Vec<Operand>),
    Words(Vec<u32>),
    Lits(Vec<u32>),
    Str(String),
    OptStr(Option<String>),
    PairsOperandWord(Vec<(Operand, u32)>),
    PairsWordLit(Vec<(u32, u32)>),
    PairsWordWord(Vec<(u32, u32)>),
    Op(u32),
    Enum(String, u32),
    OptEnum(String, Option<u32>),
}

#[derive(Clone, Debug, PartialEq)]
pub struct Arg {
    pub name: String,
    pub v: ArgV,
}

pub trait ArgSrc {
    fn word(&mut self, pname: &str) -> u32;
    fn opt_word(&mut self, pname: &str) -> Option<u32>;
    fn insert_point(&mut self) -> InsertPoint;
    fn lit32(&mut self, pname: &str) -> u32;
    fn lit64(&mut self, pname: &str) -> u64;
    fn byte(&mut self, pname: &str) -> u8;
    fn operands(&mut self, pname: &str) -> Vec<Operand>;
    fn words(&mut self, pname: &str) -> Vec<u32>;
    fn lits(&mut self, pname: &str) -> Vec<u32>;
    fn string(&mut self, pname: &str) -> String;
    fn opt_string(&mut self, pname: &str) -> Option<String>;
    fn pairs_operand_word(&mut self, pname: &str) -> Vec<(Operand, u32)>;
    fn pairs_word_lit(&mut self, pname: &str) -> Vec<(u32, u32)>;
    fn pairs_word_word(&mut self, pname: &str) -> Vec<(u32, u32)>;
    fn op(&mut self, pname: &str) -> rspirv::spirv::Op;
    fn enum_val(&mut self, pname: &str, ty: &str, param_free: bool) -> u32;
    fn opt_enum_val(&mut self, pname: &str, ty: &str, param_free: bool) -> Option<u32>;
}

// ---------------------------------------------------------------- method semantics

#[derive(Clone, Copy, Debug, PartialEq, Eq, Hash)]
pub enum MClass {
    /// appends to the selected block (generated normal instructions and their insert_ forms, ext_inst)
    BlockInst,
    /// generated terminator-file methods (end the block in the Builder)
    TerminatorFile,
    /// generated type methods (dedup semantics)
    Type,
    /// other module-level emitters
    Global,
    /// context dependent: variable, undef, line, no_line
    Context,
    /// begin/end function, begin block, parameter
    Structure,
    /// emits nothing (id, set_version, begin_block_no_label)
    NoEmit,
}

#[derive(Clone, Debug)]
pub struct MethodSem {
    pub idx: usize,
    pub name: &'static str,
    pub opname: Option<String>,
    pub class: MClass,
    pub is_insert: bool,
    pub explicit_id_type: bool,
}

pub fn method_sems() -> &'static Vec<MethodSem> {
    static S: OnceLock<Vec<MethodSem>> = OnceLock::new();
    S.get_or_init(|| {
        let d = db();
        let lower: HashMap<String, String> = d.insts.iter().map(|ri| (ri.opname.to_lowercase(), ri.opname.clone())).collect();
        METHODS
            .iter()
            .enumerate()
            .map(|(idx, m)| {
                let name = m.name;
                let is_insert = name.starts_with("insert_") && m.file != "mod.rs";
                let mut base = if is_insert { &name[7..] } else { name };
                let mut explicit_id_type = false;
                if m.file == "autogen_type.rs" && !lower.contains_key(&base.replace('_', "")) {
                    if let Some(s) = base.strip_suffix("_id") {
                        base = s;
                        explicit_id_type = true;
                    }
                }
                let over: Option<&str> = match name {
                    "begin_function" => Some("Function"),
                    "end_function" => Some("FunctionEnd"),
                    "begin_block" => Some("Label"),
                    "constant_bit32" | "constant_bit64" => Some("Constant"),
                    "spec_constant_bit32" | "spec_constant_bit64" => Some("SpecConstant"),
                    _ => None,
                };
                let base = match base {
                    "ret" => "return",
                    "ret_value" => "return_value",
                    b => b,
                };
                let opname = over.map(|s| s.to_string()).or_else(|| lower.get(&base.replace('_', "")).cloned());
                let class = match (m.file, name) {
                    (_, "id") | (_, "set_version") | (_, "begin_block_no_label") => MClass::NoEmit,
                    (_, "begin_function") | (_, "end_function") | (_, "begin_block") | (_, "function_parameter") => MClass::Structure,
                    (_, "variable") | (_, "undef") | (_, "line") | (_, "no_line") => MClass::Context,
                    ("autogen_terminator.rs", _) => MClass::TerminatorFile,
                    ("autogen_norm_insts.rs", _) => MClass::BlockInst,
                    ("mod.rs", "ext_inst") => MClass::BlockInst,
                    ("autogen_type.rs", _) | ("mod.rs", "type_pointer") => MClass::Type,
                    _ => MClass::Global,
                };
                MethodSem { idx, name, opname: if class == MClass::NoEmit { None } else { opname }, class, is_insert, explicit_id_type }
            })
            .collect()
    })
}

pub fn method(idx: usize) -> &'static MethodInfo {
    &METHODS[idx]
}

// ---------------------------------------------------------------- argument source

#[derive(Clone, Debug, Default)]
pub struct ArgCtx {
    /// ids of declared types usable as the result type of constant_bit32 / constant_bit64
    pub types32: Vec<u32>,
    pub types64: Vec<u32>,
    /// number of instructions in the selected block (for insert offsets)
    pub block_len: usize,
    /// when set, ids are drawn from this small pool instead of fresh markers (C13)
    pub small_pool: Option<Vec<u32>>,
    /// probability (in 1/8) that an Option<result_id> is given explicitly
    pub explicit_id_8: u32,
    /// only InsertPoint::End (used when position is compared against the built module simply)
    pub insert_end_only: bool,
    /// (enumeration name, value): used with probability 3/4 for arguments of that enumeration, so that the
    /// calls of one history agree on e.g. a storage class (relations between the arguments of different calls)
    pub prefer_enum: Vec<(&'static str, u32)>,
    /// string arguments come from this small pool (names that recur across calls: an entry point named like a
    /// function, a name looked up later)
    pub tiny_strings: Option<&'static [&'static str]>,
    /// id lists sometimes name one id twice ([a, c, a]): a list argument is carried as given, not as a set
    pub repeat_in_lists: bool,
}

pub struct RandArgs<'a> {
    pub rng: &'a mut Rng,
    pub marker: &'a mut u32,
    pub ctx: &'a ArgCtx,
    pub method: &'static str,
    pub trace: Vec<Arg>,
    optional_closed: bool,
    pending: Vec<(K, u32)>,
    mode_params: Option<usize>,
}

impl<'a> RandArgs<'a> {
    pub fn new(rng: &'a mut Rng, marker: &'a mut u32, ctx: &'a ArgCtx, method: &'static str) -> RandArgs<'a> {
        RandArgs { rng, marker, ctx, method, trace: vec![], optional_closed: false, pending: vec![], mode_params: None }
    }
    fn fresh(&mut self) -> u32 {
        if let Some(p) = &self.ctx.small_pool {
            return *self.rng.pick(p);
        }
        *self.marker += 1;
        *self.marker
    }
    fn rec(&mut self, name: &str, v: ArgV) {
        self.trace.push(Arg { name: name.to_string(), v });
    }
    fn present(&mut self) -> bool {
        if self.optional_closed {
            return false;
        }
        if self.rng.chance(1, 2) {
            true
        } else {
            self.optional_closed = true;
            false
        }
    }
    fn count(&mut self) -> usize {
        if self.optional_closed {
            0
        } else {
            self.rng.below(4)
        }
    }
    fn param_operand(&mut self, k: K) -> Operand {
        match k {
            K::IdRef => Operand::IdRef(self.fresh()),
            K::IdScope => Operand::IdScope(self.fresh()),
            K::IdMemorySemantics => Operand::IdMemorySemantics(self.fresh()),
            K::LiteralInteger | K::LiteralFloat => Operand::LiteralBit32(self.fresh()),
            K::LiteralString => Operand::LiteralString(self.rng.pick(crate::geninst::STRING_POOL).to_string()),
            k if decls::kind_class(k) == 0 => {
                let vals = db().enum_values(k);
                let v = vals[self.rng.below(vals.len())].1;
                decls::mk_enum_operand(k, v).expect("declared enumerant")
            }
            k => {
                let all = db().mask_all(k);
                decls::mk_enum_operand(k, self.rng.u32() & all).expect("declared mask")
            }
        }
    }
    fn pick_enum(&mut self, ty: &str, param_free: bool) -> u32 {
        let d = db();
        let k = kind_by_name(ty).expect("kind");
        // hand-written execution_mode / execution_mode_id take their parameters as a slice of u32:
        // only modes whose parameters are all literals (resp. all ids) are conforming there
        if ty == "ExecutionMode" && (self.method == "execution_mode" || self.method == "execution_mode_id") {
            let want_ids = self.method == "execution_mode_id";
            let ok: Vec<u32> = d.enum_values(k).iter().map(|(_, v)| *v).filter(|v| {
                let p = d.params_seq(k, *v);
                if want_ids { !p.is_empty() && p.iter().all(|(pk, _)| *pk == K::IdRef) } else { p.iter().all(|(pk, _)| *pk == K::LiteralInteger) }
            }).collect();
            let v = *self.rng.pick(&ok);
            self.mode_params = Some(d.params_seq(k, v).len());
            return v;
        }
        if let Some((_, pv)) = self.ctx.prefer_enum.iter().find(|(n, _)| *n == ty) {
            if self.rng.chance(3, 4) {
                return *pv;
            }
        }
        for _ in 0..200 {
            let v = match decls::kind_class(k) {
                0 => {
                    let vals = d.enum_values(k);
                    vals[self.rng.below(vals.len())].1
                }
                _ => {
                    let bits = d.mask_bits(k);
                    match self.rng.below(4) {
                        0 => 0,
                        1 => *self.rng.pick(&bits),
                        _ => {
                            let mut v = 0;
                            for b in bits {
                                if self.rng.chance(1, 3) {
                                    v |= b;
                                }
                            }
                            v
                        }
                    }
                }
            };
            let params = d.params_seq(k, v);
            // a value whose parameters cannot be placed right after it is not conforming here
            let blocked = param_free || !self.pending.iter().all(|(pk, pv)| d.params_seq(*pk, *pv).is_empty());
            if params.is_empty() || !blocked {
                if !params.is_empty() || d.params.keys().any(|(kk, _)| *kk == k) {
                    self.pending.push((k, v));
                }
                return v;
            }
        }
        0
    }
}

impl<'a> ArgSrc for RandArgs<'a> {
    fn word(&mut self, pname: &str) -> u32 {
        let v = match (self.method, pname) {
            ("constant_bit32", "result_type") | ("spec_constant_bit32", "result_type") if !self.ctx.types32.is_empty() => *self.rng.pick(&self.ctx.types32),
            ("constant_bit64", "result_type") | ("spec_constant_bit64", "result_type") if !self.ctx.types64.is_empty() => *self.rng.pick(&self.ctx.types64),
            _ => self.fresh(),
        };
        self.rec(pname, ArgV::Word(v));
        v
    }
    fn opt_word(&mut self, pname: &str) -> Option<u32> {
        let is_result = matches!(pname, "result_id" | "function_id" | "label_id");
        let v = if is_result {
            if self.rng.below(8) < self.ctx.explicit_id_8 as usize {
                Some(self.fresh())
            } else {
                None
            }
        } else if self.present() {
            Some(self.fresh())
        } else {
            None
        };
        self.rec(pname, ArgV::OptWord(v));
        v
    }
    fn insert_point(&mut self) -> InsertPoint {
        let n = self.ctx.block_len;
        let (ip, s) = if self.ctx.insert_end_only {
            (InsertPoint::End, "End".to_string())
        } else {
            match self.rng.below(4) {
                0 => (InsertPoint::End, "End".to_string()),
                1 => (InsertPoint::Begin, "Begin".to_string()),
                2 => {
                    let k = self.rng.below(n + 1);
                    (InsertPoint::FromBegin(k), format!("FromBegin({})", k))
                }
                _ => {
                    let k = self.rng.below(n + 1);
                    (InsertPoint::FromEnd(k), format!("FromEnd({})", k))
                }
            }
        };
        self.rec("insert_point", ArgV::InsertPoint(s));
        ip
    }
    fn lit32(&mut self, pname: &str) -> u32 {
        let v = self.fresh();
        self.rec(pname, ArgV::Lit32(v));
        v
    }
    fn lit64(&mut self, pname: &str) -> u64 {
        let v = ((self.fresh() as u64) << 32) | self.fresh() as u64;
        self.rec(pname, ArgV::Lit64(v));
        v
    }
    fn byte(&mut self, pname: &str) -> u8 {
        let v = self.rng.below(256) as u8;
        self.rec(pname, ArgV::Byte(v));
        v
    }
    fn operands(&mut self, pname: &str) -> Vec<Operand> {
        let v: Vec<Operand> = if pname == "additional_params" {
            let pend = std::mem::take(&mut self.pending);
            let mut out = vec![];
            for (k, val) in pend {
                for (pk, _q) in db().params_seq(k, val) {
                    let o = self.param_operand(pk);
                    out.push(o);
                }
            }
            out
        } else {
            // free-form operand list (ext_inst): ids
            (0..self.count()).map(|_| Operand::IdRef(self.fresh())).collect()
        };
        self.rec(pname, ArgV::Operands(v.clone()));
        v
    }
    fn words(&mut self, pname: &str) -> Vec<u32> {
        let n = self.count();
        let mut v: Vec<u32> = (0..n).map(|_| self.fresh()).collect();
        if self.ctx.repeat_in_lists && n >= 1 && self.rng.chance(3, 4) {
            if n == 1 {
                v.push(v[0]);
            } else {
                let from = self.rng.below(n - 1);
                v[n - 1] = v[from];
            }
        }
        self.rec(pname, ArgV::Words(v.clone()));
        v
    }
    fn lits(&mut self, pname: &str) -> Vec<u32> {
        let n = match self.mode_params.take() {
            Some(n) => n,
            None => self.count(),
        };
        let v: Vec<u32> = (0..n).map(|_| self.fresh()).collect();
        self.rec(pname, ArgV::Lits(v.clone()));
        v
    }
    fn string(&mut self, pname: &str) -> String {
        let v = match self.ctx.tiny_strings {
            Some(t) => self.rng.pick(t).to_string(),
            None => self.rng.pick(crate::geninst::STRING_POOL).to_string(),
        };
        self.rec(pname, ArgV::Str(v.clone()));
        v
    }
    fn opt_string(&mut self, pname: &str) -> Option<String> {
        let v = if self.present() { Some(self.rng.pick(crate::geninst::STRING_POOL).to_string()) } else { None };
        self.rec(pname, ArgV::OptStr(v.clone()));
        v
    }
    fn pairs_operand_word(&mut self, pname: &str) -> Vec<(Operand, u32)> {
        let n = self.count();
        let v: Vec<(Operand, u32)> = (0..n).map(|_| (Operand::LiteralBit32(self.fresh()), self.fresh())).collect();
        self.rec(pname, ArgV::PairsOperandWord(v.clone()));
        v
    }
    fn pairs_word_lit(&mut self, pname: &str) -> Vec<(u32, u32)> {
        let n = self.count();
        let v: Vec<(u32, u32)> = (0..n).map(|_| (self.fresh(), self.fresh())).collect();
        self.rec(pname, ArgV::PairsWordLit(v.clone()));
        v
    }
    fn pairs_word_word(&mut self, pname: &str) -> Vec<(u32, u32)> {
        let n = self.count();
        let v: Vec<(u32, u32)> = (0..n).map(|_| (self.fresh(), self.fresh())).collect();
        self.rec(pname, ArgV::PairsWordWord(v.clone()));
        v
    }
    fn op(&mut self, pname: &str) -> rspirv::spirv::Op {
        // Builder::spec_constant_op takes no payload operands: only opcodes without required
        // operands of their own give a grammar-conforming instruction
        let d = db();
        let ok: Vec<u16> = d.insts.iter().filter(|ri| ri.ops.iter().all(|(k, q)| matches!(k, K::IdResultType | K::IdResult) || *q != Q::One)).filter(|ri| !ri.ops.iter().any(|(k, _)| matches!(k, K::LiteralContextDependentNumber | K::PairLiteralIntegerIdRef | K::LiteralSpecConstantOpInteger))).map(|ri| ri.opcode).collect();
        let v = *self.rng.pick(&ok);
        self.rec(pname, ArgV::Op(v as u32));
        decls::op_by_value(v as u32).expect("declared opcode")
    }
    fn enum_val(&mut self, pname: &str, ty: &str, param_free: bool) -> u32 {
        let v = self.pick_enum(ty, param_free);
        self.rec(pname, ArgV::Enum(ty.to_string(), v));
        v
    }
    fn opt_enum_val(&mut self, pname: &str, ty: &str, param_free: bool) -> Option<u32> {
        let v = if self.present() { Some(self.pick_enum(ty, param_free)) } else { None };
        self.rec(pname, ArgV::OptEnum(ty.to_string(), v));
        v
    }
}

// ---------------------------------------------------------------- replaying recorded arguments

/// An argument source that hands out a recorded trace again (to repeat a call with identical arguments).
pub struct ReplayArgs {
    items: std::collections::VecDeque<Arg>,
    pub trace: Vec<Arg>,
    pub ok: bool,
}

impl ReplayArgs {
    pub fn new(trace: &[Arg]) -> ReplayArgs {
        ReplayArgs { items: trace.iter().cloned().collect(), trace: trace.to_vec(), ok: true }
    }
    fn take(&mut self) -> Option<ArgV> {
        match self.items.pop_front() {
            Some(a) => Some(a.v),
            None => {
                self.ok = false;
                None
            }
        }
    }
}

impl ArgSrc for ReplayArgs {
    fn word(&mut self, _p: &str) -> u32 {
        match self.take() {
            Some(ArgV::Word(v)) => v,
            _ => {
                self.ok = false;
                0
            }
        }
    }
    fn opt_word(&mut self, _p: &str) -> Option<u32> {
        match self.take() {
            Some(ArgV::OptWord(v)) => v,
            _ => {
                self.ok = false;
                None
            }
        }
    }
    fn insert_point(&mut self) -> InsertPoint {
        match self.take() {
            Some(ArgV::InsertPoint(s)) => {
                let num = |s: &str| s.trim_end_matches(')').split('(').nth(1).and_then(|n| n.parse::<usize>().ok()).unwrap_or(0);
                if s == "Begin" {
                    InsertPoint::Begin
                } else if s.starts_with("FromBegin") {
                    InsertPoint::FromBegin(num(&s))
                } else if s.starts_with("FromEnd") {
                    InsertPoint::FromEnd(num(&s))
                } else {
                    InsertPoint::End
                }
            }
            _ => {
                self.ok = false;
                InsertPoint::End
            }
        }
    }
    fn lit32(&mut self, _p: &str) -> u32 {
        match self.take() {
            Some(ArgV::Lit32(v)) => v,
            _ => {
                self.ok = false;
                0
            }
        }
    }
    fn lit64(&mut self, _p: &str) -> u64 {
        match self.take() {
            Some(ArgV::Lit64(v)) => v,
            _ => {
                self.ok = false;
                0
            }
        }
    }
    fn byte(&mut self, _p: &str) -> u8 {
        match self.take() {
            Some(ArgV::Byte(v)) => v,
            _ => {
                self.ok = false;
                0
            }
        }
    }
    fn operands(&mut self, _p: &str) -> Vec<Operand> {
        match self.take() {
            Some(ArgV::Operands(v)) => v,
            _ => {
                self.ok = false;
                vec![]
            }
        }
    }
    fn words(&mut self, _p: &str) -> Vec<u32> {
        match self.take() {
            Some(ArgV::Words(v)) => v,
            _ => {
                self.ok = false;
                vec![]
            }
        }
    }
    fn lits(&mut self, _p: &str) -> Vec<u32> {
        match self.take() {
            Some(ArgV::Lits(v)) => v,
            _ => {
                self.ok = false;
                vec![]
            }
        }
    }
    fn string(&mut self, _p: &str) -> String {
        match self.take() {
            Some(ArgV::Str(v)) => v,
            _ => {
                self.ok = false;
                String::new()
            }
        }
    }
    fn opt_string(&mut self, _p: &str) -> Option<String> {
        match self.take() {
            Some(ArgV::OptStr(v)) => v,
            _ => {
                self.ok = false;
                None
            }
        }
    }
    fn pairs_operand_word(&mut self, _p: &str) -> Vec<(Operand, u32)> {
        match self.take() {
            Some(ArgV::PairsOperandWord(v)) => v,
            _ => {
                self.ok = false;
                vec![]
            }
        }
    }
    fn pairs_word_lit(&mut self, _p: &str) -> Vec<(u32, u32)> {
        match self.take() {
            Some(ArgV::PairsWordLit(v)) => v,
            _ => {
                self.ok = false;
                vec![]
            }
        }
    }
    fn pairs_word_word(&mut self, _p: &str) -> Vec<(u32, u32)> {
        match self.take() {
            Some(ArgV::PairsWordWord(v)) => v,
            _ => {
                self.ok = false;
                vec![]
            }
        }
    }
    fn op(&mut self, _p: &str) -> rspirv::spirv::Op {
        match self.take() {
            Some(ArgV::Op(v)) => decls::op_by_value(v).unwrap_or(rspirv::spirv::Op::Nop),
            _ => {
                self.ok = false;
                rspirv::spirv::Op::Nop
            }
        }
    }
    fn enum_val(&mut self, _p: &str, _ty: &str, _pf: bool) -> u32 {
        match self.take() {
            Some(ArgV::Enum(_, v)) => v,
            _ => {
                self.ok = false;
                0
            }
        }
    }
    fn opt_enum_val(&mut self, _p: &str, _ty: &str, _pf: bool) -> Option<u32> {
        match self.take() {
            Some(ArgV::OptEnum(_, v)) => v,
            _ => {
                self.ok = false;
                None
            }
        }
    }
}

// ---------------------------------------------------------------- per-call oracle

#[derive(Clone, Debug, PartialEq)]
pub struct Expected {
    pub opname: String,
    pub rtype: Option<u32>,
    /// None = the instruction has a result id that the call allocated (compare with the returned id)
    pub rid: Option<Option<u32>>,
    pub operands: Vec<Operand>,
}

fn id_operand(k: K, v: u32) -> Option<Operand> {
    Some(match k {
        K::IdRef => Operand::IdRef(v),
        K::IdScope => Operand::IdScope(v),
        K::IdMemorySemantics => Operand::IdMemorySemantics(v),
        K::LiteralInteger | K::LiteralFloat => Operand::LiteralBit32(v),
        K::LiteralExtInstInteger => Operand::LiteralExtInstInteger(v),
        _ => return None,
    })
}

/// Computes the instruction a call must emit from the grammar entry `ri` and the recorded arguments
/// (signature order == grammar order). Err = the signature does not line up with the grammar entry.
pub fn expected_from_table(ri: &RefInst, trace: &[Arg]) -> Result<Expected, String> {
    let mut args = trace.iter().filter(|a| !matches!(a.v, ArgV::InsertPoint(_))).peekable();
    let mut e = Expected { opname: ri.opname.clone(), rtype: None, rid: None, operands: vec![] };
    let has_rid = ri.ops.iter().any(|(k, _)| *k == K::IdResult);
    if has_rid {
        e.rid = Some(None);
    }
    for (k, q) in &ri.ops {
        match k {
            K::IdResultType => match args.next() {
                Some(Arg { v: ArgV::Word(v), .. }) => e.rtype = Some(*v),
                other => return Err(format!("result type expected, argument {:?}", other.map(|a| &a.name))),
            },
            K::IdResult => {
                if let Some(Arg { name, v: ArgV::OptWord(v) }) = args.peek() {
                    if name == "result_id" || name == "function_id" || name == "label_id" {
                        e.rid = Some(*v);
                        args.next();
                    }
                }
            }
            _ => {
                let a = match args.next() {
                    Some(a) => a,
                    None => return Err(format!("no parameter for operand {}:{:?}", kind_name(*k), q)),
                };
                let bad = || Err(format!("parameter `{}` ({:?}) does not fit operand {}:{:?}", a.name, a.v, kind_name(*k), q));
                match (&a.v, q) {
                    (ArgV::Lit32(v), Q::One) if *k == K::LiteralContextDependentNumber => e.operands.push(Operand::LiteralBit32(*v)),
                    (ArgV::Lit64(v), Q::One) if *k == K::LiteralContextDependentNumber => e.operands.push(Operand::LiteralBit64(*v)),
                    (ArgV::Word(v), Q::One) | (ArgV::Lit32(v), Q::One) => match id_operand(*k, *v) {
                        Some(o) => e.operands.push(o),
                        None => return bad(),
                    },
                    (ArgV::OptWord(v), Q::ZeroOrOne) => {
                        if let Some(v) = v {
                            match id_operand(*k, *v) {
                                Some(o) => e.operands.push(o),
                                None => return bad(),
                            }
                        }
                    }
                    (ArgV::Words(vs), Q::ZeroOrMore) | (ArgV::Lits(vs), Q::ZeroOrMore) => {
                        for v in vs {
                            match id_operand(*k, *v) {
                                Some(o) => e.operands.push(o),
                                None => return bad(),
                            }
                        }
                    }
                    (ArgV::Operands(os), Q::ZeroOrMore) => e.operands.extend(os.iter().cloned()),
                    (ArgV::Str(s), Q::One) if *k == K::LiteralString => e.operands.push(Operand::LiteralString(s.clone())),
                    (ArgV::OptStr(s), Q::ZeroOrOne) if *k == K::LiteralString => {
                        if let Some(s) = s {
                            e.operands.push(Operand::LiteralString(s.clone()))
                        }
                    }
                    (ArgV::Enum(ty, v), Q::One) if ty == kind_name(*k) => e.operands.push(decls::mk_enum_operand(*k, *v).ok_or("enum")?),
                    (ArgV::OptEnum(ty, v), Q::ZeroOrOne) if ty == kind_name(*k) => {
                        if let Some(v) = v {
                            e.operands.push(decls::mk_enum_operand(*k, *v).ok_or("enum")?)
                        }
                    }
                    (ArgV::PairsOperandWord(ps), Q::ZeroOrMore) if *k == K::PairLiteralIntegerIdRef => {
                        for (o, w) in ps {
                            e.operands.push(o.clone());
                            e.operands.push(Operand::IdRef(*w));
                        }
                    }
                    (ArgV::PairsWordLit(ps), Q::ZeroOrMore) if *k == K::PairIdRefLiteralInteger => {
                        for (a, b) in ps {
                            e.operands.push(Operand::IdRef(*a));
                            e.operands.push(Operand::LiteralBit32(*b));
                        }
                    }
                    (ArgV::PairsWordWord(ps), Q::ZeroOrMore) if *k == K::PairIdRefIdRef => {
                        for (a, b) in ps {
                            e.operands.push(Operand::IdRef(*a));
                            e.operands.push(Operand::IdRef(*b));
                        }
                    }
                    (ArgV::Op(v), Q::One) if *k == K::LiteralSpecConstantOpInteger => e.operands.push(Operand::LiteralSpecConstantOpInteger(decls::op_by_value(*v).ok_or("op")?)),
                    _ => return bad(),
                }
                // parameters of a parameterised value: a following `additional_params` / slice argument
                let parameterised = db().params.keys().any(|(kk, _)| kk == k);
                if parameterised {
                    let take = match args.peek() {
                        Some(Arg { v: ArgV::Operands(_), .. }) => true,
                        Some(Arg { name, v: ArgV::Lits(_) }) if name == "params" => true,
                        // another parameterised operand follows first (copy_memory): parameters come later
                        _ => false,
                    };
                    if take {
                        match &args.next().unwrap().v {
                            ArgV::Operands(os) => e.operands.extend(os.iter().cloned()),
                            ArgV::Lits(vs) => {
                                // execution_mode(_id): the slice carries the mode's parameters
                                let val = match &a.v {
                                    ArgV::Enum(_, v) => *v,
                                    _ => 0,
                                };
                                let kinds = db().params_seq(*k, val);
                                for (i, v) in vs.iter().enumerate() {
                                    let pk = kinds.get(i).map(|(pk, _)| *pk).unwrap_or(K::LiteralInteger);
                                    e.operands.push(id_operand(pk, *v).ok_or("param")?);
                                }
                            }
                            _ => {}
                        }
                    }
                }
            }
        }
    }
    if let Some(a) = args.next() {
        return Err(format!("parameter `{}` has no operand in the grammar entry of Op{}", a.name, ri.opname));
    }
    Ok(e)
}

pub fn show_trace(t: &[Arg]) -> String {
    t.iter().map(|a| format!("{}={:?}", a.name, a.v)).collect::<Vec<_>>().join(", ")
}
