//! Parser for Rust `{:?}` output (derived Debug of structs, enums, tuples, vectors, strings).

#[derive(Clone, Debug, PartialEq)]
pub enum Node {
    /// `Name { a: x, b: y }`, `Name(x, y)`, `Name`
    Named { name: String, fields: Vec<(Option<String>, Node)>, braces: bool },
    List(Vec<Node>),
    Tuple(Vec<Node>),
    Str(String),
    /// number, identifier-free token such as `-1.5`, `0x0`, `A | B`
    Leaf(String),
}

struct P<'a> {
    c: Vec<char>,
    i: usize,
    _s: &'a str,
}

impl<'a> P<'a> {
    fn ws(&mut self) {
        while self.i < self.c.len() && self.c[self.i].is_whitespace() {
            self.i += 1;
        }
    }
    fn peek(&self) -> Option<char> {
        self.c.get(self.i).copied()
    }
    fn value(&mut self) -> Result<Node, String> {
        self.ws();
        match self.peek() {
            None => Err("unexpected end".into()),
            Some('[') => {
                self.i += 1;
                Ok(Node::List(self.seq(']')?))
            }
            Some('(') => {
                self.i += 1;
                Ok(Node::Tuple(self.seq(')')?))
            }
            Some('"') => {
                let st = self.i;
                self.i += 1;
                while self.i < self.c.len() {
                    if self.c[self.i] == '\\' {
                        self.i += 2;
                        continue;
                    }
                    if self.c[self.i] == '"' {
                        self.i += 1;
                        break;
                    }
                    self.i += 1;
                }
                let tok: String = self.c[st..self.i.min(self.c.len())].iter().collect();
                Ok(Node::Str(crate::textread::unescape(&tok)?))
            }
            Some(ch) if ch.is_alphabetic() || ch == '_' => {
                let st = self.i;
                while self.i < self.c.len() && (self.c[self.i].is_alphanumeric() || self.c[self.i] == '_') {
                    self.i += 1;
                }
                let name: String = self.c[st..self.i].iter().collect();
                self.ws();
                match self.peek() {
                    Some('{') => {
                        self.i += 1;
                        let mut fields = vec![];
                        loop {
                            self.ws();
                            if self.peek() == Some('}') {
                                self.i += 1;
                                break;
                            }
                            let fs = self.i;
                            while self.i < self.c.len() && (self.c[self.i].is_alphanumeric() || self.c[self.i] == '_') {
                                self.i += 1;
                            }
                            let fname: String = self.c[fs..self.i].iter().collect();
                            self.ws();
                            if self.peek() != Some(':') {
                                return Err(format!("expected ':' after field {}", fname));
                            }
                            self.i += 1;
                            let v = self.value()?;
                            fields.push((Some(fname), v));
                            self.ws();
                            if self.peek() == Some(',') {
                                self.i += 1;
                            }
                        }
                        Ok(Node::Named { name, fields, braces: true })
                    }
                    Some('(') => {
                        // either a tuple variant or a bitflags rendering `Name(A | B)` / `Name(0x0)`
                        let save = self.i;
                        self.i += 1;
                        match self.seq(')') {
                            Ok(items) => Ok(Node::Named { name, fields: items.into_iter().map(|n| (None, n)).collect(), braces: false }),
                            Err(_) => {
                                // take the raw text up to the matching parenthesis as one leaf
                                self.i = save + 1;
                                let st = self.i;
                                let mut depth = 1;
                                while self.i < self.c.len() && depth > 0 {
                                    match self.c[self.i] {
                                        '(' => depth += 1,
                                        ')' => depth -= 1,
                                        _ => {}
                                    }
                                    self.i += 1;
                                }
                                let raw: String = self.c[st..self.i - 1].iter().collect();
                                Ok(Node::Named { name, fields: vec![(None, Node::Leaf(raw))], braces: false })
                            }
                        }
                    }
                    _ => {
                        // unit variant / bare identifier; may be followed by ` | X` (bitflags inner text)
                        let mut text = name.clone();
                        loop {
                            self.ws();
                            if self.peek() == Some('|') {
                                self.i += 1;
                                self.ws();
                                let s2 = self.i;
                                while self.i < self.c.len() && (self.c[self.i].is_alphanumeric() || self.c[self.i] == '_') {
                                    self.i += 1;
                                }
                                text.push_str(" | ");
                                text.push_str(&self.c[s2..self.i].iter().collect::<String>());
                            } else {
                                break;
                            }
                        }
                        if text == name {
                            Ok(Node::Named { name, fields: vec![], braces: false })
                        } else {
                            Ok(Node::Leaf(text))
                        }
                    }
                }
            }
            Some(_) => {
                let st = self.i;
                while self.i < self.c.len() && !matches!(self.c[self.i], ',' | ')' | ']' | '}' | ' ') {
                    self.i += 1;
                }
                if st == self.i {
                    return Err(format!("unexpected character {:?}", self.c[self.i]));
                }
                Ok(Node::Leaf(self.c[st..self.i].iter().collect()))
            }
        }
    }
    fn seq(&mut self, close: char) -> Result<Vec<Node>, String> {
        let mut v = vec![];
        loop {
            self.ws();
            match self.peek() {
                None => return Err("unterminated sequence".into()),
                Some(c) if c == close => {
                    self.i += 1;
                    return Ok(v);
                }
                _ => {}
            }
            v.push(self.value()?);
            self.ws();
            if self.peek() == Some(',') {
                self.i += 1;
            }
        }
    }
}

pub fn parse(s: &str) -> Result<Node, String> {
    let mut p = P { c: s.chars().collect(), i: 0, _s: s };
    let v = p.value()?;
    p.ws();
    if p.i != p.c.len() {
        return Err(format!("trailing text at {}", p.i));
    }
    Ok(v)
}

impl Node {
    pub fn name(&self) -> &str {
        match self {
            Node::Named { name, .. } => name,
            _ => "",
        }
    }
    pub fn field(&self, f: &str) -> Option<&Node> {
        match self {
            Node::Named { fields, .. } => fields.iter().find(|(n, _)| n.as_deref() == Some(f)).map(|(_, v)| v),
            _ => None,
        }
    }
    pub fn items(&self) -> Vec<&Node> {
        match self {
            Node::List(v) | Node::Tuple(v) => v.iter().collect(),
            Node::Named { fields, .. } => fields.iter().map(|(_, v)| v).collect(),
            _ => vec![],
        }
    }
    /// Leaves in order. `Some(x)` is transparent, `None` and empty lists vanish, `Token(n)` and
    /// bitflags renderings stay single leaves (re-serialised).
    pub fn leaves(&self, out: &mut Vec<String>) {
        match self {
            Node::Str(s) => out.push(format!("{:?}", s)),
            Node::Leaf(s) => out.push(s.clone()),
            Node::List(v) | Node::Tuple(v) => {
                for x in v {
                    x.leaves(out)
                }
            }
            Node::Named { name, fields, braces } => {
                if name == "None" && fields.is_empty() {
                    return;
                }
                if name == "Some" && fields.len() == 1 {
                    fields[0].1.leaves(out);
                    return;
                }
                if name == "Token" && fields.len() == 1 {
                    let mut inner = vec![];
                    fields[0].1.leaves(&mut inner);
                    out.push(format!("Token({})", inner.join("")));
                    return;
                }
                if fields.is_empty() {
                    out.push(name.clone());
                    return;
                }
                if !*braces && fields.len() == 1 {
                    if let Node::Leaf(raw) = &fields[0].1 {
                        // tuple struct around a raw leaf: a bitflags value such as MemoryAccess(VOLATILE | ALIGNED)
                        if raw.contains('|') || raw.starts_with("0x") || raw.chars().all(|c| c.is_ascii_uppercase() || c == '_' || c.is_ascii_digit()) {
                            out.push(format!("{}({})", name, raw));
                            return;
                        }
                    }
                    if let Node::Named { name: inner, fields: f2, .. } = &fields[0].1 {
                        if f2.is_empty() && inner.chars().all(|c| c.is_ascii_uppercase() || c == '_' || c.is_ascii_digit()) {
                            out.push(format!("{}({})", name, inner));
                            return;
                        }
                    }
                }
                for (_, v) in fields {
                    v.leaves(out)
                }
            }
        }
    }
}
