//! Independent reader of rspirv's disassembly text: reconstructs abstract instructions from the
//! text using only the specification vocabulary (frozen grammar: opnames, enumerant names, mask
//! constant names, ext-inst names) and its own type-width model.

use crate::generated::decls;
use crate::gram::{db, kind_name, AInst, AOp, AVal, K, Q};
use crate::model::{NumTy, TypeModel, Width};
use std::collections::HashMap;

pub const GENERATORS: [&str; 16] = ["The Khronos Group", "LunarG", "Valve", "Codeplay", "NVIDIA", "ARM", "LLVM/SPIR-V Translator", "SPIR-V Tools Assembler", "Glslang", "Qualcomm", "AMD", "Intel", "Imagination", "Shaderc", "spiregg", "rspirv"];

#[derive(Debug, Clone, PartialEq)]
pub struct HeaderText {
    pub major: u32,
    pub minor: u32,
    pub generator: String,
    pub bound: u32,
}

/// Splits a line into tokens: whitespace separated, except double-quoted strings with escapes.
fn tokenize(line: &str) -> Result<Vec<String>, String> {
    let cs: Vec<char> = line.chars().collect();
    let mut i = 0;
    let mut out = vec![];
    while i < cs.len() {
        if cs[i] == ' ' {
            i += 1;
            continue;
        }
        if cs[i] == '"' {
            let st = i;
            i += 1;
            loop {
                if i >= cs.len() {
                    return Err("unterminated string".into());
                }
                if cs[i] == '\\' {
                    i += 2;
                    continue;
                }
                if cs[i] == '"' {
                    i += 1;
                    break;
                }
                i += 1;
            }
            out.push(cs[st..i.min(cs.len())].iter().collect());
        } else {
            let st = i;
            while i < cs.len() && cs[i] != ' ' {
                i += 1;
            }
            out.push(cs[st..i].iter().collect());
        }
    }
    Ok(out)
}

/// Undoes Rust's `{:?}` escaping of a string literal token (including the quotes).
pub fn unescape(tok: &str) -> Result<String, String> {
    let cs: Vec<char> = tok.chars().collect();
    if cs.len() < 2 || cs[0] != '"' || cs[cs.len() - 1] != '"' {
        return Err(format!("not a quoted string: {}", tok));
    }
    let mut out = String::new();
    let mut i = 1;
    while i < cs.len() - 1 {
        if cs[i] != '\\' {
            out.push(cs[i]);
            i += 1;
            continue;
        }
        i += 1;
        match cs.get(i) {
            Some('n') => out.push('\n'),
            Some('r') => out.push('\r'),
            Some('t') => out.push('\t'),
            Some('0') => out.push('\0'),
            Some('\\') => out.push('\\'),
            Some('"') => out.push('"'),
            Some('\'') => out.push('\''),
            Some('u') => {
                // \u{hex}
                if cs.get(i + 1) != Some(&'{') {
                    return Err("bad \\u escape".into());
                }
                let mut j = i + 2;
                let mut v = 0u32;
                while j < cs.len() && cs[j] != '}' {
                    v = v * 16 + cs[j].to_digit(16).ok_or("bad hex digit")?;
                    j += 1;
                }
                out.push(char::from_u32(v).ok_or("bad code point")?);
                i = j;
            }
            Some('x') => {
                let h: String = cs.get(i + 1..i + 3).ok_or("bad \\x escape")?.iter().collect();
                out.push(u8::from_str_radix(&h, 16).map_err(|_| "bad \\x escape")? as char);
                i += 2;
            }
            other => return Err(format!("unknown escape {:?}", other)),
        }
        i += 1;
    }
    Ok(out)
}

fn parse_id(t: &str) -> Result<u32, String> {
    t.strip_prefix('%').and_then(|n| n.parse::<u32>().ok()).ok_or_else(|| format!("expected an id, found {:?}", t))
}

fn enum_by_name(k: K, tok: &str) -> Result<u32, String> {
    let d = db();
    let name = if k == K::Dim { format!("Dim{}", tok) } else { tok.to_string() };
    d.enum_values(k).iter().find(|(n, _)| *n == name).map(|(_, v)| *v).ok_or_else(|| format!("{:?} is not a specification name of a {} enumerant", tok, kind_name(k)))
}

fn mask_by_names(k: K, tok: &str) -> Result<u32, String> {
    if tok == "None" {
        return Ok(0);
    }
    let d = db();
    let mut v = 0u32;
    for part in tok.split('|') {
        let up = part.to_uppercase();
        let hit = d.mask_consts(k).iter().find(|(c, bits)| *bits != 0 && c.replace('_', "") == up);
        match hit {
            Some((_, bits)) => {
                if v & bits != 0 {
                    return Err(format!("mask bit {} named twice", part));
                }
                v |= bits
            }
            None => return Err(format!("{:?} is not a specification name of a {} bit", part, kind_name(k))),
        }
    }
    if v == 0 {
        return Err("empty mask must be written None".into());
    }
    Ok(v)
}

/// Value of an enum / mask operand from its specification-name rendering.
pub fn value_by_name(k: K, text: &str) -> Result<u32, String> {
    match decls::kind_class(k) {
        0 => enum_by_name(k, text),
        1 => mask_by_names(k, text),
        _ => Err("not an enum or mask kind".into()),
    }
}

pub struct Reader {
    pub types: TypeModel,
    /// result id of OpExtInstImport -> set name
    pub imports: HashMap<u32, String>,
    /// OpConstant lines are formatted by type only in the module-scope part
    pub in_function: bool,
    /// whether the extended-instruction number of the line read last was written as a name
    pub last_ext_symbolic: std::cell::Cell<Option<bool>>,
    /// numeric types declared ANYWHERE in the module-scope part of the text (pre-pass): the rendering of
    /// a module-scope OpConstant follows the declared type even when the declaration comes later, while
    /// the number of words follows the declarations seen so far
    pub global_types: HashMap<u32, NumTy>,
}

struct Toks {
    t: Vec<String>,
    i: usize,
}
impl Toks {
    fn next(&mut self) -> Result<String, String> {
        let x = self.t.get(self.i).cloned().ok_or_else(|| "line ends before all required operands".to_string())?;
        self.i += 1;
        Ok(x)
    }
    fn remaining(&self) -> usize {
        self.t.len() - self.i
    }
}

impl Reader {
    pub fn new() -> Reader {
        Reader { types: TypeModel::new(), imports: HashMap::new(), in_function: false, last_ext_symbolic: Default::default(), global_types: HashMap::new() }
    }

    /// Pre-pass over the instruction lines: collects `%n = OpTypeInt w s` / `%n = OpTypeFloat w` of the
    /// module-scope part.
    pub fn prescan(&mut self, lines: &[&str]) {
        for l in lines {
            let t: Vec<&str> = l.split_whitespace().collect();
            if t.iter().any(|x| *x == "OpFunction") {
                break;
            }
            if t.len() >= 4 && t[1] == "=" {
                let id = match t[0].strip_prefix('%').and_then(|n| n.parse::<u32>().ok()) {
                    Some(i) => i,
                    None => continue,
                };
                match t[2] {
                    "OpTypeInt" if t.len() >= 5 => {
                        if let (Ok(w), Ok(sg)) = (t[3].parse::<u32>(), t[4].parse::<u32>()) {
                            self.global_types.insert(id, NumTy::Int(w, sg == 1));
                        }
                    }
                    "OpTypeFloat" => {
                        if let Ok(w) = t[3].parse::<u32>() {
                            self.global_types.insert(id, NumTy::Float(w));
                        }
                    }
                    _ => {}
                }
            }
        }
    }

    fn literal_for_type(&self, tok: &str, type_id: u32, typed_format: bool) -> Result<AVal, String> {
        let w = self.types.width(type_id);
        let ty = if typed_format { self.global_types.get(&type_id).copied().or(self.types.get(type_id)) } else { self.types.get(type_id) };
        let bad = || format!("cannot read literal {:?} for type %{} ({:?})", tok, type_id, ty);
        match (w, ty, typed_format) {
            (Width::Unsupported, _, _) | (Width::Ambiguous, _, _) => Err(bad()),
            (Width::One, Some(NumTy::Int(_, true)), true) => tok.parse::<i32>().map(|v| AVal::W(v as u32)).map_err(|_| bad()),
            (Width::One, Some(NumTy::Float(_)), true) => tok.parse::<f32>().map(|v| AVal::W(v.to_bits())).map_err(|_| bad()),
            (Width::One, _, _) => tok.parse::<u32>().map(AVal::W).map_err(|_| bad()),
            (Width::Two, Some(NumTy::Int(_, true)), true) => tok.parse::<i64>().map(|v| AVal::W64(v as u64)).map_err(|_| bad()),
            (Width::Two, Some(NumTy::Float(_)), true) => tok.parse::<f64>().map(|v| AVal::W64(v.to_bits())).map_err(|_| bad()),
            (Width::Two, _, _) => tok.parse::<u64>().map(AVal::W64).map_err(|_| bad()),
        }
    }

    fn operand(&self, ts: &mut Toks, k: K, inst: &AInst, out: &mut Vec<AOp>, depth: u32) -> Result<(), String> {
        let d = db();
        match k {
            K::IdRef | K::IdScope | K::IdMemorySemantics => out.push(AOp::w(k, parse_id(&ts.next()?)?)),
            K::LiteralInteger | K::LiteralFloat => {
                let t = ts.next()?;
                out.push(AOp::w(k, t.parse::<u32>().map_err(|_| format!("expected an unsigned decimal literal, found {:?}", t))?))
            }
            K::LiteralExtInstInteger => {
                let t = ts.next()?;
                self.last_ext_symbolic.set(Some(t.parse::<u32>().is_err()));
                let v = match t.parse::<u32>() {
                    Ok(v) => v,
                    Err(_) => {
                        // symbolic name: only when the set operand names a recognised import
                        let set = inst.ops.first().or(out.first()).and_then(|o| o.word()).ok_or("ext inst without set")?;
                        let table = match self.imports.get(&set).map(|s| s.as_str()) {
                            Some("GLSL.std.450") => &d.glsl,
                            Some("OpenCL.std") => &d.cl,
                            other => return Err(format!("extended instruction name {:?} for set %{} ({:?})", t, set, other)),
                        };
                        table.iter().find(|e| e.opname == t).map(|e| e.opcode).ok_or_else(|| format!("{:?} is not an instruction of the imported set", t))?
                    }
                };
                out.push(AOp::w(k, v))
            }
            K::LiteralString => out.push(AOp { kind: k, val: AVal::S(unescape(&ts.next()?)?) }),
            K::LiteralContextDependentNumber => {
                let t = inst.rtype.ok_or("typed literal without result type")?;
                let typed_format = !self.in_function && d.lookup(inst.opcode).map(|r| r.opname == "Constant").unwrap_or(false);
                let v = self.literal_for_type(&ts.next()?, t, typed_format)?;
                out.push(AOp { kind: k, val: v })
            }
            K::PairLiteralIntegerIdRef => {
                let sel = inst.ops.first().or(out.first()).and_then(|o| o.word()).ok_or("switch without selector")?;
                let v = self.literal_for_type(&ts.next()?, sel, false)?;
                out.push(AOp { kind: K::LiteralContextDependentNumber, val: v });
                out.push(AOp::id(parse_id(&ts.next()?)?));
            }
            K::PairIdRefLiteralInteger => {
                out.push(AOp::id(parse_id(&ts.next()?)?));
                let t = ts.next()?;
                out.push(AOp::lit(t.parse::<u32>().map_err(|_| format!("expected a literal, found {:?}", t))?));
            }
            K::PairIdRefIdRef => {
                out.push(AOp::id(parse_id(&ts.next()?)?));
                out.push(AOp::id(parse_id(&ts.next()?)?));
            }
            K::LiteralSpecConstantOpInteger => {
                if depth > 0 {
                    return Err("nested spec constant op".into());
                }
                let t = ts.next()?;
                let ri = d.by_name.get(&t).map(|i| &d.insts[*i]).ok_or_else(|| format!("{:?} is not an opcode name", t))?;
                out.push(AOp::w(k, ri.opcode as u32));
                let ops: Vec<(K, Q)> = ri.ops.iter().filter(|(k, _)| !matches!(k, K::IdResultType | K::IdResult)).cloned().collect();
                self.seq(ts, &ops, inst, out, depth + 1)?;
            }
            k if decls::kind_class(k) == 0 => {
                let v = enum_by_name(k, &ts.next()?)?;
                out.push(AOp::w(k, v));
                // a variadic parameter is rendered with however many values it has; the grammar
                // position is last, so greedy reading is unambiguous
                self.seq(ts, &d.params_seq(k, v), inst, out, depth)?;
            }
            k if decls::kind_class(k) == 1 => {
                let v = mask_by_names(k, &ts.next()?)?;
                out.push(AOp::w(k, v));
                self.seq(ts, &d.params_seq(k, v), inst, out, depth)?;
            }
            other => return Err(format!("operand kind {:?} not readable", other)),
        }
        Ok(())
    }

    fn seq(&self, ts: &mut Toks, ops: &[(K, Q)], inst: &AInst, out: &mut Vec<AOp>, depth: u32) -> Result<(), String> {
        for (k, q) in ops {
            match q {
                Q::One => self.operand(ts, *k, inst, out, depth)?,
                Q::ZeroOrOne => {
                    if ts.remaining() > 0 {
                        self.operand(ts, *k, inst, out, depth)?
                    }
                }
                Q::ZeroOrMore => {
                    while ts.remaining() > 0 {
                        self.operand(ts, *k, inst, out, depth)?
                    }
                }
            }
        }
        Ok(())
    }

    /// Reads one instruction line and updates the reader's context.
    pub fn line(&mut self, line: &str) -> Result<AInst, String> {
        let d = db();
        let mut ts = Toks { t: tokenize(line)?, i: 0 };
        self.last_ext_symbolic.set(None);
        let first = ts.next()?;
        let (rid, optok) = if first.starts_with('%') {
            let eq = ts.next()?;
            if eq != "=" {
                return Err("expected `=` after the result id".into());
            }
            (Some(parse_id(&first)?), ts.next()?)
        } else {
            (None, first)
        };
        let opname = optok.strip_prefix("Op").ok_or_else(|| format!("expected an opcode, found {:?}", optok))?;
        let ri = d.by_name.get(opname).map(|i| &d.insts[*i]).ok_or_else(|| format!("Op{} is not a specification opcode name", opname))?;
        let has_rt = ri.ops.iter().any(|(k, _)| *k == K::IdResultType);
        let has_rid = ri.ops.iter().any(|(k, _)| *k == K::IdResult);
        if has_rid != rid.is_some() {
            return Err(format!("Op{} {} a result id but the line {}", opname, if has_rid { "has" } else { "has not" }, if rid.is_some() { "shows one" } else { "shows none" }));
        }
        let mut inst = AInst::new(ri.opcode, None, rid, vec![]);
        if has_rt {
            inst.rtype = Some(parse_id(&ts.next()?)?);
        }
        let ops: Vec<(K, Q)> = ri.ops.iter().filter(|(k, _)| !matches!(k, K::IdResultType | K::IdResult)).cloned().collect();
        let mut out = vec![];
        self.seq(&mut ts, &ops, &inst, &mut out, 0)?;
        inst.ops = out;
        if ts.remaining() > 0 {
            return Err(format!("{} token(s) left over: {:?}", ts.remaining(), &ts.t[ts.i..]));
        }
        // context updates
        self.types.observe(&inst);
        match opname {
            "ExtInstImport" => {
                if let (Some(r), Some(AOp { val: AVal::S(s), .. })) = (inst.rid, inst.ops.first()) {
                    self.imports.insert(r, s.clone());
                }
            }
            "Function" => self.in_function = true,
            "FunctionEnd" => self.in_function = false,
            _ => {}
        }
        Ok(inst)
    }
}

/// Reads the four header comment lines.
pub fn read_header(lines: &[&str]) -> Result<HeaderText, String> {
    if lines.len() < 4 || lines[0] != "; SPIR-V" {
        return Err("missing `; SPIR-V` header comment".into());
    }
    let ver = lines[1].strip_prefix("; Version: ").ok_or("missing `; Version:` line")?;
    let (ma, mi) = ver.split_once('.').ok_or("version is not major.minor")?;
    let generator = lines[2].strip_prefix("; Generator: ").ok_or("missing `; Generator:` line")?.to_string();
    let bound = lines[3].strip_prefix("; Bound: ").ok_or("missing `; Bound:` line")?.parse::<u32>().map_err(|_| "bound is not a number")?;
    Ok(HeaderText { major: ma.parse().map_err(|_| "major")?, minor: mi.parse().map_err(|_| "minor")?, generator, bound })
}
