//! REFERENCE ACCEPTOR: an independent parser model of the SPIR-V binary form, written from the
//! property statement (C03) and the frozen grammar. It never calls rspirv's parser or decoder.

use crate::generated::decls;
use crate::gram::{db, AInst, AOp, AVal, K, MAGIC, Q};
use crate::model::{TypeModel, Width};

#[derive(Clone, Copy, Debug, PartialEq, Eq, Hash, PartialOrd, Ord)]
pub enum Fault {
    HeaderIncomplete,
    HeaderIncorrect,
    Endianness,
    WordCountZero,
    OpcodeUnknown,
    Missing,
    Surplus,
    Undecodable,
    TypeUnsupported,
    SpecConstOp,
}

#[derive(Clone, Debug, PartialEq)]
pub struct Reject {
    /// 1-based number of the first malformed instruction (0 = header)
    pub index: usize,
    /// byte offset of its first word
    pub start: usize,
    /// start + 4 * declared word count (may lie beyond the end of the stream)
    pub extent_end: usize,
    /// admissible fault classes
    pub classes: Vec<Fault>,
    pub note: String,
}

#[derive(Clone, Debug, PartialEq)]
pub enum RefOutcome {
    Accept,
    Reject(Reject),
    /// the input leaves the property's quantifier at instruction `index` (reason given)
    Unspecified { index: usize, reason: String },
}

#[derive(Clone, Debug)]
pub struct RefParse {
    pub header: Option<(u32, u32, u32)>,
    /// instructions preceding the first malformed one (all of them on acceptance)
    pub insts: Vec<AInst>,
    pub starts: Vec<usize>,
    pub outcome: RefOutcome,
    /// 1..3 bytes that do not form a word follow the last instruction (not judged by C03)
    pub trailing_bytes: bool,
    /// "Kind:value" of enumerants whose variadic parameter list was matched with a count != 1
    pub variadic_params: Vec<String>,
}

struct Win<'a> {
    bytes: &'a [u8],
    /// byte offset of the first operand word
    base: usize,
    /// number of whole operand words available (inside the declared extent and the stream)
    avail: usize,
    /// number of operand words the instruction declares (word count - 1); > avail when truncated
    declared: usize,
    cur: usize,
}

impl<'a> Win<'a> {
    fn remaining(&self) -> usize {
        self.avail - self.cur
    }
    fn word(&mut self) -> Option<u32> {
        if self.cur >= self.avail {
            return None;
        }
        let p = self.base + self.cur * 4;
        self.cur += 1;
        Some(u32::from_le_bytes([self.bytes[p], self.bytes[p + 1], self.bytes[p + 2], self.bytes[p + 3]]))
    }
    /// NUL-terminated UTF-8 string in whole words of the window.
    fn string(&mut self) -> Result<String, Vec<Fault>> {
        let lo = self.base + self.cur * 4;
        let hi = self.base + self.avail * 4;
        let sl = &self.bytes[lo..hi];
        match sl.iter().position(|c| *c == 0) {
            None => Err(vec![Fault::Missing, Fault::Undecodable]),
            Some(n) => match std::str::from_utf8(&sl[..n]) {
                Err(_) => Err(vec![Fault::Undecodable]),
                Ok(s) => {
                    self.cur += n / 4 + 1;
                    Ok(s.to_string())
                }
            },
        }
    }
}

enum Stop {
    Fault(Vec<Fault>, String),
    Unspecified(String),
}

fn missing(what: &str) -> Stop {
    Stop::Fault(vec![Fault::Missing], format!("missing {}", what))
}

struct Ctx<'t> {
    types: &'t TypeModel,
    /// enumerant parameters with a non-`One` quantifier that were matched with a count other than one
    /// (the only known instance is Decoration BankBitsINTEL): rspirv reads exactly one such parameter
    variadic_params: std::cell::RefCell<Vec<String>>,
}

fn context_literal(w: &mut Win, cx: &Ctx, type_id: u32, out: &mut Vec<AOp>) -> Result<(), Stop> {
    if w.remaining() == 0 {
        // Two faults can coincide when the stream ends inside the declared extent right before a
        // literal of unsupported width: the operand is missing AND its type is unsupported.
        if w.cur < w.declared && cx.types.width(type_id) == Width::Unsupported {
            return Err(Stop::Fault(vec![Fault::Missing, Fault::TypeUnsupported], "literal of unsupported width cut off by the end of the stream".into()));
        }
        return Err(missing("context dependent literal"));
    }
    match cx.types.width(type_id) {
        Width::One => {
            let v = w.word().unwrap();
            out.push(AOp { kind: K::LiteralContextDependentNumber, val: AVal::W(v) });
        }
        Width::Two => {
            let lo = w.word().unwrap();
            let hi = w.word().ok_or_else(|| missing("high word of 64-bit literal"))?;
            out.push(AOp { kind: K::LiteralContextDependentNumber, val: AVal::W64(((hi as u64) << 32) | lo as u64) });
        }
        Width::Unsupported => return Err(Stop::Fault(vec![Fault::TypeUnsupported], format!("literal of unsupported width, type %{}", type_id))),
        Width::Ambiguous => return Err(Stop::Unspecified(format!("type id %{} defined more than once", type_id))),
    }
    Ok(())
}

/// Parses one occurrence of logical operand kind `k` (the window has at least one word unless noted).
fn operand(w: &mut Win, cx: &Ctx, k: K, inst: &AInst, out: &mut Vec<AOp>, depth: u32) -> Result<(), Stop> {
    let d = db();
    match k {
        K::IdResultType | K::IdResult => unreachable!(),
        K::IdRef | K::IdScope | K::IdMemorySemantics | K::LiteralInteger | K::LiteralFloat | K::LiteralExtInstInteger => {
            let v = w.word().ok_or_else(|| missing(crate::gram::kind_name(k)))?;
            out.push(AOp::w(k, v));
        }
        K::LiteralString => {
            if w.remaining() == 0 {
                return Err(missing("string"));
            }
            match w.string() {
                Ok(s) => out.push(AOp { kind: k, val: AVal::S(s) }),
                Err(f) => return Err(Stop::Fault(f, "string not terminated inside the extent or not UTF-8".into())),
            }
        }
        K::LiteralContextDependentNumber => {
            let t = inst.rtype.ok_or_else(|| Stop::Unspecified("context dependent literal without result type".into()))?;
            context_literal(w, cx, t, out)?;
        }
        K::PairLiteralIntegerIdRef => {
            let sel = match inst.ops.first().or(out.first()) {
                Some(AOp { kind: K::IdRef, val: AVal::W(v) }) => *v,
                _ => return Err(Stop::Unspecified("switch literal without selector".into())),
            };
            context_literal(w, cx, sel, out)?;
            let v = w.word().ok_or_else(|| missing("switch target"))?;
            out.push(AOp::id(v));
        }
        K::PairIdRefLiteralInteger => {
            let a = w.word().ok_or_else(|| missing("pair id"))?;
            out.push(AOp::id(a));
            let b = w.word().ok_or_else(|| missing("pair literal"))?;
            out.push(AOp::lit(b));
        }
        K::PairIdRefIdRef => {
            let a = w.word().ok_or_else(|| missing("pair id"))?;
            out.push(AOp::id(a));
            let b = w.word().ok_or_else(|| missing("pair id"))?;
            out.push(AOp::id(b));
        }
        K::LiteralSpecConstantOpInteger => {
            if depth > 0 {
                return Err(Stop::Unspecified("nested OpSpecConstantOp payload".into()));
            }
            let n = w.word().ok_or_else(|| missing("spec constant opcode"))?;
            let ri = match if n <= 0xffff { d.lookup(n as u16) } else { None } {
                Some(r) => r,
                None => return Err(Stop::Fault(vec![Fault::SpecConstOp], format!("spec constant payload opcode {} unknown", n))),
            };
            if ri.ops.iter().any(|(k, _)| matches!(k, K::LiteralContextDependentNumber | K::PairLiteralIntegerIdRef | K::LiteralSpecConstantOpInteger)) {
                return Err(Stop::Unspecified(format!("spec constant payload Op{} has context dependent operands", ri.opname)));
            }
            out.push(AOp::w(k, n));
            let ops: Vec<(K, Q)> = ri.ops.iter().filter(|(k, _)| !matches!(k, K::IdResultType | K::IdResult)).cloned().collect();
            logical_seq(w, cx, &ops, inst, out, depth + 1)?;
        }
        k if decls::kind_class(k) == 0 => {
            let v = w.word().ok_or_else(|| missing(crate::gram::kind_name(k)))?;
            if !d.enum_declared(k, v) {
                return Err(Stop::Fault(vec![Fault::Undecodable], format!("undeclared {} enumerant {}", crate::gram::kind_name(k), v)));
            }
            out.push(AOp::w(k, v));
            let params = d.params_seq(k, v);
            param_seq(w, cx, k, v, &params, inst, out, depth)?;
        }
        k if decls::kind_class(k) == 1 => {
            let v = w.word().ok_or_else(|| missing(crate::gram::kind_name(k)))?;
            if v & !d.mask_all(k) != 0 {
                return Err(Stop::Fault(vec![Fault::Undecodable], format!("undeclared {} bits {:#x}", crate::gram::kind_name(k), v & !d.mask_all(k))));
            }
            out.push(AOp::w(k, v));
            let params = d.params_seq(k, v);
            param_seq(w, cx, k, v, &params, inst, out, depth)?;
        }
        _ => return Err(Stop::Unspecified(format!("operand kind {:?} not modelled", k))),
    }
    Ok(())
}

/// Parameters of an enumerant / mask value; notes variadic parameters matched other than once.
#[allow(clippy::too_many_arguments)]
fn param_seq(w: &mut Win, cx: &Ctx, k: K, v: u32, params: &[(K, Q)], inst: &AInst, out: &mut Vec<AOp>, depth: u32) -> Result<(), Stop> {
    for (pk, pq) in params {
        let before = out.len();
        let r = logical_seq(w, cx, &[(*pk, *pq)], inst, out, depth);
        if *pq != Q::One && (out.len() - before != 1 || r.is_err()) {
            cx.variadic_params.borrow_mut().push(format!("{}:{}", crate::gram::kind_name(k), v));
        }
        r?;
    }
    Ok(())
}

/// Matches a sequence of logical operands with quantifiers against the window (greedy, as the
/// grammar is deterministic: optional operands only form a trailing run, variadic ones are last).
fn logical_seq(w: &mut Win, cx: &Ctx, ops: &[(K, Q)], inst: &AInst, out: &mut Vec<AOp>, depth: u32) -> Result<(), Stop> {
    for (k, q) in ops {
        match q {
            Q::One => {
                // (a typed literal decides itself what a missing word means, see context_literal)
                if w.remaining() == 0 && *k != K::LiteralContextDependentNumber {
                    return Err(missing(crate::gram::kind_name(*k)));
                }
                operand(w, cx, *k, inst, out, depth)?;
            }
            Q::ZeroOrOne => {
                if w.remaining() > 0 {
                    operand(w, cx, *k, inst, out, depth)?;
                }
            }
            Q::ZeroOrMore => {
                while w.remaining() > 0 {
                    operand(w, cx, *k, inst, out, depth)?;
                }
            }
        }
    }
    Ok(())
}

pub fn refparse(bytes: &[u8]) -> RefParse {
    let mut rp = RefParse { header: None, insts: vec![], starts: vec![], outcome: RefOutcome::Accept, trailing_bytes: false, variadic_params: vec![] };
    let rd = |p: usize| u32::from_le_bytes([bytes[p], bytes[p + 1], bytes[p + 2], bytes[p + 3]]);
    if bytes.len() < 20 {
        let mut classes = vec![Fault::HeaderIncomplete];
        if bytes.len() >= 4 && rd(0) != MAGIC {
            classes.push(if rd(0) == MAGIC.swap_bytes() { Fault::Endianness } else { Fault::HeaderIncorrect });
        }
        rp.outcome = RefOutcome::Reject(Reject { index: 0, start: 0, extent_end: 20, classes, note: "fewer than five header words".into() });
        return rp;
    }
    if rd(0) != MAGIC {
        let c = if rd(0) == MAGIC.swap_bytes() { Fault::Endianness } else { Fault::HeaderIncorrect };
        rp.outcome = RefOutcome::Reject(Reject { index: 0, start: 0, extent_end: 20, classes: vec![c], note: "bad magic".into() });
        return rp;
    }
    rp.header = Some((rd(4), rd(8), rd(12)));
    let d = db();
    let mut types = TypeModel::new();
    let mut p = 20usize;
    let mut index = 0usize;
    loop {
        if p + 4 > bytes.len() {
            rp.trailing_bytes = p < bytes.len();
            return rp;
        }
        index += 1;
        let first = rd(p);
        let wc = (first >> 16) as usize;
        let opcode = (first & 0xffff) as u16;
        let extent_end = p + 4 * wc;
        let truncated = extent_end > bytes.len();
        let ri = d.lookup(opcode);
        if wc == 0 || ri.is_none() {
            let mut classes = vec![];
            if wc == 0 {
                classes.push(Fault::WordCountZero);
            }
            if ri.is_none() {
                classes.push(Fault::OpcodeUnknown);
            }
            if truncated {
                classes.push(Fault::Missing);
            }
            rp.outcome = RefOutcome::Reject(Reject { index, start: p, extent_end, classes, note: format!("wc={} opcode={}", wc, opcode) });
            return rp;
        }
        let ri = ri.unwrap();
        let avail = std::cmp::min(wc - 1, (bytes.len() - (p + 4)) / 4);
        let mut w = Win { bytes, base: p + 4, avail, declared: wc - 1, cur: 0 };
        let mut inst = AInst::new(opcode, None, None, vec![]);
        let cx = Ctx { types: &types, variadic_params: Default::default() };
        let mut stop: Option<Stop> = None;
        for (li, (k, q)) in ri.ops.iter().enumerate() {
            let r: Result<(), Stop> = (|| {
                match k {
                    K::IdResultType | K::IdResult => {
                        // result type / result id are always required
                        let v = w.word().ok_or_else(|| missing(crate::gram::kind_name(*k)))?;
                        if *k == K::IdResultType {
                            inst.rtype = Some(v)
                        } else {
                            inst.rid = Some(v)
                        }
                        Ok(())
                    }
                    _ => {
                        let mut out = vec![];
                        let r = logical_seq(&mut w, &cx, &[(*k, *q)], &inst, &mut out, 0);
                        inst.ops.extend(out);
                        r
                    }
                }
            })();
            let _ = li;
            if let Err(s) = r {
                stop = Some(s);
                break;
            }
        }
        rp.variadic_params.extend(cx.variadic_params.borrow().iter().cloned());
        if stop.is_none() && w.remaining() > 0 {
            stop = Some(Stop::Fault(vec![Fault::Surplus], format!("{} operand word(s) left over", w.remaining())));
        }
        if stop.is_none() && truncated {
            stop = Some(Stop::Fault(vec![], "declared extent reaches past the end of the stream".into()));
        }
        match stop {
            None => {
                types.observe(&inst);
                rp.insts.push(inst);
                rp.starts.push(p);
                p = extent_end;
            }
            Some(Stop::Unspecified(reason)) => {
                rp.outcome = RefOutcome::Unspecified { index, reason };
                return rp;
            }
            Some(Stop::Fault(mut classes, note)) => {
                if truncated {
                    for c in [Fault::Missing, Fault::Surplus] {
                        if !classes.contains(&c) {
                            classes.push(c);
                        }
                    }
                    // a switch whose case list is cut off by the end of the stream: the next case literal
                    // is missing AND (for a selector of unsupported width) of unsupported type
                    if ri.opname == "Switch" {
                        if let Some(AOp { kind: K::IdRef, val: AVal::W(sel) }) = inst.ops.first() {
                            if types.width(*sel) == Width::Unsupported && !classes.contains(&Fault::TypeUnsupported) {
                                classes.push(Fault::TypeUnsupported);
                            }
                        }
                    }
                }
                rp.outcome = RefOutcome::Reject(Reject { index, start: p, extent_end, classes, note: format!("Op{}: {}", ri.opname, note) });
                return rp;
            }
        }
    }
}
