//! C15 – module traversals visit exactly the assembled instruction sequence.

use crate::util::{catch, run_stage, Cfg, Json, Report, Rng};
use rspirv::binary::Assemble;
use rspirv::dr::{self, Operand};
use rspirv::spirv::Op;

struct Built {
    module: dr::Module,
    /// expected marker order: globals, then per function
    globals: Vec<u32>,
    functions: Vec<Vec<u32>>,
}

fn mk(rng: &mut Rng, marker: &mut u32) -> (dr::Instruction, u32) {
    *marker += 1;
    let m = *marker;
    let inst = match rng.below(5) {
        0 => dr::Instruction::new(Op::Undef, Some(7), Some(m), vec![]),
        1 => dr::Instruction::new(Op::Label, None, Some(m), vec![]),
        2 => dr::Instruction::new(Op::Name, None, None, vec![Operand::IdRef(m), Operand::LiteralString("n".repeat(rng.below(9)))]),
        3 => dr::Instruction::new(Op::Line, None, None, vec![Operand::IdRef(m), Operand::LiteralBit32(1), Operand::LiteralBit32(2)]),
        _ => dr::Instruction::new(Op::Decorate, None, None, vec![Operand::IdRef(m), Operand::Decoration(rspirv::spirv::Decoration::Block)]),
    };
    (inst, m)
}

/// The marker of an instruction built by `mk` from its assembled words.
fn marker_of_words(w: &[u32]) -> u32 {
    // (total: an assembly that is shorter than the instruction it stands for has marker 0)
    let at = |i: usize| w.get(i).copied().unwrap_or(0);
    match at(0) & 0xffff {
        1 => at(2), // Undef: type, id
        _ => at(1), // Label: id; Name / Line / Decorate: first operand
    }
}
fn marker_of(i: &dr::Instruction) -> u32 {
    match i.class.opcode {
        Op::Undef | Op::Label => i.result_id.unwrap_or(0),
        _ => match i.operands.first() {
            Some(Operand::IdRef(m)) => *m,
            _ => 0,
        },
    }
}

fn build(rng: &mut Rng, shape: u32, sizes_max: usize) -> Built {
    let mut marker = 100;
    let mut globals = vec![];
    let mut m = dr::Module::new();
    let present = |bit: u32| shape & (1 << bit) != 0;
    if present(0) {
        // (bounds below the marker ids too: a header is emitted as it is)
        let mut h = dr::ModuleHeader::new(if rng.chance(1, 3) { rng.below(120) as u32 } else { rng.u32() });
        h.version = rng.u32();
        h.generator = rng.u32();
        m.header = Some(h);
    }
    let fill = |v: &mut Vec<dr::Instruction>, on: bool, rng: &mut Rng, globals: &mut Vec<u32>, marker: &mut u32| {
        if on {
            for _ in 0..rng.range(1, sizes_max) {
                let (i, k) = mk(rng, marker);
                v.push(i);
                globals.push(k);
            }
        }
    };
    fill(&mut m.capabilities, present(1), rng, &mut globals, &mut marker);
    fill(&mut m.extensions, present(2), rng, &mut globals, &mut marker);
    fill(&mut m.ext_inst_imports, present(3), rng, &mut globals, &mut marker);
    if present(4) {
        let (i, k) = mk(rng, &mut marker);
        m.memory_model = Some(i);
        globals.push(k);
    }
    fill(&mut m.entry_points, present(5), rng, &mut globals, &mut marker);
    fill(&mut m.execution_modes, present(6), rng, &mut globals, &mut marker);
    fill(&mut m.debug_string_source, present(7), rng, &mut globals, &mut marker);
    fill(&mut m.debug_names, present(8), rng, &mut globals, &mut marker);
    fill(&mut m.debug_module_processed, present(9), rng, &mut globals, &mut marker);
    fill(&mut m.annotations, present(10), rng, &mut globals, &mut marker);
    fill(&mut m.types_global_values, present(11), rng, &mut globals, &mut marker);
    let mut functions = vec![];
    if present(12) {
        for _ in 0..rng.range(1, 3) {
            let mut f = dr::Function::new();
            let mut order = vec![];
            if rng.chance(3, 4) {
                let (i, k) = mk(rng, &mut marker);
                f.def = Some(i);
                order.push(k);
            }
            for _ in 0..rng.below(3) {
                let (i, k) = mk(rng, &mut marker);
                f.parameters.push(i);
                order.push(k);
            }
            for _ in 0..rng.below(4) {
                let mut b = dr::Block::new();
                if rng.chance(3, 4) {
                    let (i, k) = mk(rng, &mut marker);
                    b.label = Some(i);
                    order.push(k);
                }
                for _ in 0..rng.below(4) {
                    let (i, k) = mk(rng, &mut marker);
                    b.instructions.push(i);
                    order.push(k);
                }
                f.blocks.push(b);
            }
            // `end` is recorded last in the expected order although the field precedes parameters
            let end = if rng.chance(3, 4) {
                let (i, k) = mk(rng, &mut marker);
                f.end = Some(i);
                Some(k)
            } else {
                None
            };
            if let Some(k) = end {
                order.push(k);
            }
            m.functions.push(f);
            functions.push(order);
        }
    }
    Built { module: m, globals, functions }
}

fn split_words(words: &[u32], has_header: bool) -> Option<Vec<Vec<u32>>> {
    let mut p = if has_header { 5 } else { 0 };
    let mut out = vec![];
    while p < words.len() {
        let wc = (words[p] >> 16) as usize;
        if wc == 0 || p + wc > words.len() {
            return None;
        }
        out.push(words[p..p + wc].to_vec());
        p += wc;
    }
    Some(out)
}

fn check(b: &mut Built, r: &mut Report, rp: &dyn Fn() -> Json, shape: u32) {
    let m = &b.module;
    let words = match catch(|| m.assemble()) {
        Ok(w) => w,
        Err(p) => {
            r.violation(format!("C15:panic:{}", crate::util::panic_key(&p)), format!("assemble() panicked on shape {:#x}: {}", shape, p.msg), rp());
            return;
        }
    };
    let expected: Vec<u32> = b.globals.iter().copied().chain(b.functions.iter().flatten().copied()).collect();
    let fail = |r: &mut Report, rule: &str, detail: String| r.violation(format!("C15:{}", rule), format!("shape {:#015b}: {}", shape, detail), rp().set("shape", shape));
    // header words
    if let Some(h) = &m.header {
        let hw = [h.magic_number, h.version, h.generator, h.bound, h.reserved_word];
        if words.len() < 5 || words[..5] != hw {
            fail(r, "assemble-header", format!("assembled header {:x?} != header fields {:x?}", &words[..words.len().min(5)], hw));
            return;
        }
    }
    let split = match split_words(&words, m.header.is_some()) {
        Some(s) => s,
        None => {
            fail(r, "assemble-split", "assembled words do not split into instructions by their word counts".into());
            return;
        }
    };
    let asm_markers: Vec<u32> = split.iter().map(|w| marker_of_words(w)).collect();
    if asm_markers != expected {
        fail(r, "assemble-order", format!("assemble() emits markers {:?}, construction order is {:?}", asm_markers, expected));
    }
    let all: Vec<&dr::Instruction> = m.all_inst_iter().collect();
    let all_markers: Vec<u32> = all.iter().map(|i| marker_of(i)).collect();
    if all_markers != asm_markers {
        fail(r, "all_inst_iter", format!("all_inst_iter visits {:?}, assemble() emits {:?}", all_markers, asm_markers));
    }
    // assemble == header ++ concat(assemble(visited))
    let mut concat: Vec<u32> = vec![];
    if let Some(h) = &m.header {
        concat.extend(h.assemble());
    }
    for i in &all {
        concat.extend(i.assemble());
    }
    if concat != words {
        fail(r, "assemble-concat", "assemble() differs from header words ++ assembly of each visited instruction".into());
    }
    let glob: Vec<u32> = m.global_inst_iter().map(marker_of).collect();
    if glob != b.globals || glob[..] != asm_markers[..glob.len().min(asm_markers.len())] {
        fail(r, "global_inst_iter", format!("global_inst_iter visits {:?}, expected the prefix {:?}", glob, b.globals));
    }
    let mut off = b.globals.len();
    for (fi, f) in m.functions.iter().enumerate() {
        let fm: Vec<u32> = f.all_inst_iter().map(marker_of).collect();
        let want = &b.functions[fi];
        let slice = asm_markers.get(off..off + want.len()).map(|s| s.to_vec()).unwrap_or_default();
        if &fm != want || fm != slice {
            fail(r, "function_all_inst_iter", format!("function {} traversal {:?}, assembled slice {:?}, construction {:?}", fi, fm, slice, want));
        }
        let fw = f.assemble();
        let fsplit: Vec<u32> = split_words(&fw, false).unwrap_or_default().iter().map(|w| marker_of_words(w)).collect();
        if &fsplit != want {
            fail(r, "function-assemble", format!("function {} assembles to {:?}, construction {:?}", fi, fsplit, want));
        }
        off += want.len();
    }
    // mutable twins visit the same elements (by address) in the same order
    let ro_all: Vec<*const dr::Instruction> = b.module.all_inst_iter().map(|i| i as *const _).collect();
    let rw_all: Vec<*const dr::Instruction> = b.module.all_inst_iter_mut().map(|i| i as *const dr::Instruction).collect();
    if ro_all != rw_all {
        fail(r, "all_inst_iter_mut", "all_inst_iter_mut visits a different element sequence than all_inst_iter".into());
    }
    let ro_g: Vec<*const dr::Instruction> = b.module.global_inst_iter().map(|i| i as *const _).collect();
    let rw_g: Vec<*const dr::Instruction> = b.module.global_inst_iter_mut().map(|i| i as *const dr::Instruction).collect();
    if ro_g != rw_g {
        fail(r, "global_inst_iter_mut", "global_inst_iter_mut visits a different element sequence than global_inst_iter".into());
    }
    for f in b.module.functions.iter_mut() {
        let ro: Vec<*const dr::Instruction> = f.all_inst_iter().map(|i| i as *const _).collect();
        let rw: Vec<*const dr::Instruction> = f.all_inst_iter_mut().map(|i| i as *const dr::Instruction).collect();
        if ro != rw {
            fail(r, "function_all_inst_iter_mut", "Function::all_inst_iter_mut visits a different element sequence than all_inst_iter".into());
        }
    }
    r.count("instructions_visited", expected.len() as u64);
}

/// The instruction sequence of a module as its structure defines it (global sections in declaration order,
/// then each function: definition, parameters, blocks (label, instructions), end), by element address.
#[allow(clippy::type_complexity)]
fn structural_order(m: &dr::Module) -> (Vec<*const dr::Instruction>, Vec<Vec<*const dr::Instruction>>) {
    let mut g: Vec<*const dr::Instruction> = vec![];
    let mut push_all = |v: &Vec<dr::Instruction>| g.extend(v.iter().map(|i| i as *const _));
    push_all(&m.capabilities);
    push_all(&m.extensions);
    push_all(&m.ext_inst_imports);
    if let Some(i) = &m.memory_model {
        g.push(i as *const _);
    }
    let mut push_all = |v: &Vec<dr::Instruction>| g.extend(v.iter().map(|i| i as *const _));
    push_all(&m.entry_points);
    push_all(&m.execution_modes);
    push_all(&m.debug_string_source);
    push_all(&m.debug_names);
    push_all(&m.debug_module_processed);
    push_all(&m.annotations);
    push_all(&m.types_global_values);
    let mut fs = vec![];
    for f in &m.functions {
        let mut v: Vec<*const dr::Instruction> = vec![];
        if let Some(i) = &f.def {
            v.push(i as *const _);
        }
        v.extend(f.parameters.iter().map(|i| i as *const _));
        for b in &f.blocks {
            if let Some(i) = &b.label {
                v.push(i as *const _);
            }
            v.extend(b.instructions.iter().map(|i| i as *const _));
        }
        if let Some(i) = &f.end {
            v.push(i as *const _);
        }
        fs.push(v);
    }
    (g, fs)
}

/// Marker-free check for arbitrary module values (realistic content, repeated identical instructions).
fn check_any(m: &mut dr::Module, r: &mut Report, rp: &dyn Fn() -> Json, what: &str) {
    let fail = |r: &mut Report, rule: &str, detail: String| r.violation(format!("C15:{}", rule), format!("{}: {}", what, detail), rp());
    let (g, fs) = structural_order(m);
    let expected: Vec<*const dr::Instruction> = g.iter().copied().chain(fs.iter().flatten().copied()).collect();
    let all: Vec<*const dr::Instruction> = m.all_inst_iter().map(|i| i as *const _).collect();
    if all != expected {
        let at = all.iter().zip(&expected).position(|(a, b)| a != b).unwrap_or(all.len().min(expected.len()));
        fail(r, "all_inst_iter", format!("all_inst_iter visits {} instructions, the module's structure holds {}; first difference at position {}", all.len(), expected.len(), at));
        return;
    }
    let glob: Vec<*const dr::Instruction> = m.global_inst_iter().map(|i| i as *const _).collect();
    if glob != g {
        fail(r, "global_inst_iter", format!("global_inst_iter visits {} instructions, {} precede the first function", glob.len(), g.len()));
    }
    for (fi, f) in m.functions.iter().enumerate() {
        let fv: Vec<*const dr::Instruction> = f.all_inst_iter().map(|i| i as *const _).collect();
        if fv != fs[fi] {
            fail(r, "function_all_inst_iter", format!("function {} traversal visits {} instructions, its structure holds {}", fi, fv.len(), fs[fi].len()));
        }
    }
    let words = match catch(|| m.assemble()) {
        Ok(w) => w,
        Err(p) => {
            r.violation(format!("C15:panic:{}", crate::util::panic_key(&p)), format!("{}: assemble() panicked: {}", what, p.msg), rp());
            return;
        }
    };
    let mut concat: Vec<u32> = vec![];
    let mut bounds = vec![];
    if let Some(h) = &m.header {
        concat.extend(h.assemble());
    }
    for i in m.all_inst_iter() {
        bounds.push(concat.len());
        concat.extend(i.assemble());
    }
    if concat != words {
        let at = concat.iter().zip(&words).position(|(a, b)| a != b).unwrap_or(concat.len().min(words.len()));
        let inst_no = bounds.iter().rposition(|b| *b <= at).unwrap_or(0);
        let culprit = m.all_inst_iter().nth(inst_no).map(crate::rs::show_inst).unwrap_or_default();
        let op = m.all_inst_iter().nth(inst_no).map(|i| format!("{:?}", i.class.opcode)).unwrap_or_default();
        r.violation(format!("C15:assemble-concat:{}", op), format!("{}: assemble() gives {} words, header ++ assembly of each visited instruction gives {}; first difference at word {} (visited instruction #{}: {})", what, words.len(), concat.len(), at, inst_no, culprit), rp());
        return;
    }
    // the per-function and per-block assemblies are the corresponding slices; assembling INTO a vector appends
    let mut off = bounds.get(g.len()).copied().unwrap_or(concat.len());
    for (fi, f) in m.functions.iter().enumerate() {
        let fw = f.assemble();
        let want: Vec<u32> = f.all_inst_iter().flat_map(|i| i.assemble()).collect();
        if fw != want || words.get(off..off + fw.len()) != Some(&fw[..]) {
            fail(r, "function-assemble", format!("function {}: Function::assemble() gives {} words, its visited instructions assemble to {} words (module slice at word {})", fi, fw.len(), want.len(), off));
            return;
        }
        let mut pre = vec![0xdead_beef, 7];
        f.assemble_into(&mut pre);
        if pre[..2] != [0xdead_beef, 7] || pre[2..] != fw[..] {
            fail(r, "assemble-into", format!("function {}: assemble_into() on a non-empty vector does not append exactly assemble()", fi));
            return;
        }
        let mut bw: Vec<u32> = vec![];
        for b in &f.blocks {
            let one = b.assemble();
            let want: Vec<u32> = b.label.iter().chain(b.instructions.iter()).flat_map(|i| i.assemble()).collect();
            if one != want {
                fail(r, "block-assemble", format!("function {}: Block::assemble() gives {} words, label ++ instructions assemble to {}", fi, one.len(), want.len()));
                return;
            }
            bw.extend(one);
        }
        let head: usize = f.def.iter().chain(f.parameters.iter()).map(|i| i.assemble().len()).sum();
        if fw.get(head..head + bw.len()) != Some(&bw[..]) {
            fail(r, "block-assemble", format!("function {}: the blocks' assemblies are not the slice of Function::assemble() after definition and parameters", fi));
            return;
        }
        off += fw.len();
    }
    let mut pre = vec![1, 2, 3];
    m.assemble_into(&mut pre);
    if pre[..3] != [1, 2, 3] || pre[3..] != words[..] {
        fail(r, "assemble-into", "Module::assemble_into() on a non-empty vector does not append exactly assemble()".into());
    }
    let rw: Vec<*const dr::Instruction> = m.all_inst_iter_mut().map(|i| i as *const dr::Instruction).collect();
    if rw != expected {
        fail(r, "all_inst_iter_mut", "all_inst_iter_mut visits a different element sequence than all_inst_iter".into());
    }
    let rw: Vec<*const dr::Instruction> = m.global_inst_iter_mut().map(|i| i as *const dr::Instruction).collect();
    if rw != g {
        fail(r, "global_inst_iter_mut", "global_inst_iter_mut visits a different element sequence than global_inst_iter".into());
    }
    for (fi, f) in m.functions.iter_mut().enumerate() {
        let rw: Vec<*const dr::Instruction> = f.all_inst_iter_mut().map(|i| i as *const dr::Instruction).collect();
        if rw != fs[fi] {
            fail(r, "function_all_inst_iter_mut", "Function::all_inst_iter_mut visits a different element sequence than all_inst_iter".into());
        }
    }
    r.count("instructions_visited", expected.len() as u64);
    // how much repetition the module carries (identical instructions are what unique markers cannot produce)
    let mut seen = std::collections::HashSet::new();
    let dups = m.all_inst_iter().filter(|i| !seen.insert(i.assemble())).count();
    if dups > 0 {
        r.count("modules_with_identical_instructions", 1);
    }
}

/// Random structural edits of a loaded module: still a dr::Module value, no longer one a loader would produce.
fn edit(m: &mut dr::Module, rng: &mut Rng) -> String {
    let mut log = vec![];
    for _ in 0..rng.below(4) {
        match rng.below(13) {
            0 => {
                m.header = None;
                log.push("no header");
            }
            10 | 11 => {
                // operand values a loader would not produce: a literal of the other width (e.g. 32-bit case
                // literals under a 64-bit selector), an id operand naming another instruction's id
                let ids: Vec<u32> = m.all_inst_iter().filter_map(|i| i.result_id).collect();
                let pick = rng.next();
                let n_cand = m.all_inst_iter().filter(|i| i.operands.iter().any(|o| matches!(o, Operand::LiteralBit64(_) | Operand::LiteralBit32(_) | Operand::IdRef(_)))).count();
                if n_cand > 0 {
                    let target = (pick % n_cand as u64) as usize;
                    let r2 = rng.next();
                    if let Some(inst) = m.all_inst_iter_mut().filter(|i| i.operands.iter().any(|o| matches!(o, Operand::LiteralBit64(_) | Operand::LiteralBit32(_) | Operand::IdRef(_)))).nth(target) {
                        let all = r2 % 3 == 0;
                        for o in inst.operands.iter_mut() {
                            let newo = match o {
                                Operand::LiteralBit64(v) => Operand::LiteralBit32(*v as u32),
                                Operand::LiteralBit32(v) if r2 % 5 != 0 => Operand::LiteralBit64(*v as u64 | (r2 & 0xffff_0000_0000)),
                                Operand::IdRef(_) if !ids.is_empty() && r2 % 7 < 3 => Operand::IdRef(ids[(r2 >> 8) as usize % ids.len()]),
                                _ => continue,
                            };
                            *o = newo;
                            if !all {
                                break;
                            }
                        }
                        log.push("operand rewritten (literal width / id)");
                    }
                }
            }
            12 => {
                if let Some(h) = m.header.as_mut() {
                    h.version = crate::genmod::random_version(rng);
                    h.generator = rng.u32();
                    // a stale or placeholder bound is the module value's business: it is emitted as it is
                    if rng.chance(1, 2) {
                        h.bound = *rng.pick(&[0u32, 1, 2, 5, u32::MAX]);
                    }
                    log.push("header version / generator / bound changed");
                }
            }
            1 => {
                if let Some(f) = rng.pick_mut(&mut m.functions) {
                    f.def = None;
                    log.push("function without definition");
                }
            }
            2 => {
                if let Some(f) = rng.pick_mut(&mut m.functions) {
                    f.end = None;
                    log.push("function without end");
                }
            }
            3 => {
                if let Some(f) = rng.pick_mut(&mut m.functions) {
                    if let Some(b) = rng.pick_mut(&mut f.blocks) {
                        b.label = None;
                        log.push("block without label");
                    }
                }
            }
            4 | 5 => {
                // an identical copy of an instruction, next to the original or further down the same block
                if let Some(f) = rng.pick_mut(&mut m.functions) {
                    if let Some(b) = rng.pick_mut(&mut f.blocks) {
                        if !b.instructions.is_empty() {
                            let i = rng.below(b.instructions.len());
                            let c = b.instructions[i].clone();
                            let at = if rng.chance(1, 2) { i + 1 } else { rng.range(i + 1, b.instructions.len() + 1) };
                            b.instructions.insert(at.min(b.instructions.len()), c);
                            log.push("instruction repeated in its block");
                        }
                    }
                }
            }
            6 => {
                let secs: [&mut Vec<dr::Instruction>; 6] = [&mut m.capabilities, &mut m.extensions, &mut m.debug_names, &mut m.annotations, &mut m.types_global_values, &mut m.debug_string_source];
                let k = rng.below(6);
                for (j, sct) in secs.into_iter().enumerate() {
                    if j == k && !sct.is_empty() {
                        let i = rng.below(sct.len());
                        let c = sct[i].clone();
                        sct.insert(i + 1, c);
                        log.push("global instruction repeated");
                    }
                }
            }
            7 => {
                if m.functions.len() >= 2 {
                    let a = rng.below(m.functions.len());
                    let f = m.functions.remove(a);
                    let b = rng.below(m.functions.len() + 1);
                    m.functions.insert(b, f);
                    log.push("function moved");
                }
            }
            8 => {
                if !m.functions.is_empty() {
                    let a = rng.below(m.functions.len());
                    let mut f = m.functions[a].clone();
                    if rng.chance(1, 2) {
                        f.blocks.clear();
                    }
                    let b = rng.below(m.functions.len() + 1);
                    m.functions.insert(b, f);
                    log.push("function copied");
                }
            }
            _ => {
                m.memory_model = None;
                log.push("no memory model");
            }
        }
    }
    log.join(", ")
}

pub fn run(cfg: &Cfg, rep: &mut Report) {
    rep.rule = "directly constructed dr::Module values with unique marker instructions of varying word counts: all 2^13 present/absent combinations of the 13 optional/vector parts (sizes 1..3, functions with missing def/end/label, empty blocks), each checked: assemble() split by word counts vs construction order vs all_inst_iter / global_inst_iter / Function::all_inst_iter and the _mut twins (by element address); then random shapes; stage `realistic`: modules with realistic content (boundary-value modules, linkage declarations, line-debug info with repeated identical instructions, random well-formed modules) as the loader files them, structurally edited (parts removed, instructions and functions repeated or moved), checked without markers: traversals by element address against the module's own structure, assemble() against header ++ assembly of each visited instruction; stage `oversized`: marker modules holding one instruction of 65536..68535 words (OpSource, OpString, OpName, OpTypeStruct, OpSourceContinued) in a section or block, checked the same marker-free way. distinct_nontrivial = distinct part combinations".into();
    rep.exhaustive = true;
    run_stage(cfg, rep, "shapes", 1 << 13, |idx, rng, r| {
        let mut b = build(rng, idx as u32, 3);
        if idx == 0x1fff {
            r.sample(Json::obj().set("shape", "all 13 parts present").set("globals", b.globals.len()).set("functions", b.functions.iter().map(|f| Json::from(f.len())).collect::<Vec<_>>()));
        }
        check(&mut b, r, &|| crate::util::replay_ref(cfg, "shapes", idx), idx as u32);
        r.nontrivial(format!("{:x}", idx));
    });
    // realistic content: modules of the other monitors' generators (boundary-value and idiom modules, random
    // well-formed modules) as the loader files them, then edited structurally; identical instructions allowed
    let n = cfg.n(6_000, 2_000_000);
    run_stage(cfg, rep, "realistic", n, |idx, rng, r| {
        let (label, words) = if idx % 3 != 0 {
            let variant = match rng.below(4) { 0 | 1 => 9 + rng.next() % 2, 2 => *rng.pick(&[1u64, 7, 7, 11]), _ => rng.next() % crate::scale::N_VARIANTS };
            if matches!(variant, 3 | 4) && rng.chance(7, 8) {
                return;
            }
            let (label, insts) = crate::scale::scale_module(rng, variant);
            let bound = insts.iter().filter_map(|i| i.rid).max().unwrap_or(0).saturating_add(1);
            let (w, _, _) = crate::genmod::encode_module(crate::genmod::random_version(rng), 0, bound, &insts, None);
            (label, w)
        } else {
            let small = rng.chance(1, 2);
            let b = crate::mon::c03::gen_base(rng, vec![], small);
            ("random well-formed module".to_string(), b.words)
        };
        let rp = || crate::util::replay_ref(cfg, "realistic", idx);
        let mut m = match catch(|| dr::load_words(&words)) {
            Ok(Ok(m)) => m,
            _ => {
                r.count("realistic_modules_not_loadable", 1);
                return;
            }
        };
        let edits = edit(&mut m, rng);
        let what = format!("{} [{}]", label, if edits.is_empty() { "as loaded" } else { &edits });
        check_any(&mut m, r, &rp, &what);
        r.seen("realistic_edits", if edits.is_empty() { "none".to_string() } else { edits });
        r.count("realistic_modules", 1);
    });
    // instructions longer than the 65535 words an instruction's word-count field can express: whatever
    // assemble() makes of one, it has to make the same of it inside a module as on its own (round 8: a module
    // assembler that splits an over-long OpSource into OpSourceContinued pieces no traversal visits)
    let n = cfg.n(24, 600);
    run_stage(cfg, rep, "oversized", n, |idx, rng, r| {
        let shape = if idx % 2 == 0 { 0x1fff } else { rng.u32() & 0x1fff };
        let mut b = build(rng, shape, 3);
        let m = &mut b.module;
        let words = 65_536 + rng.below(3_000);
        let (kind, big) = match idx % 5 {
            0 => ("Source", dr::Instruction::new(Op::Source, None, None, vec![Operand::LiteralBit32(0), Operand::LiteralBit32(1), Operand::IdRef(3), Operand::LiteralString("s".repeat(words * 4))])),
            1 => ("String", dr::Instruction::new(Op::String, None, Some(9), vec![Operand::LiteralString("t".repeat(words * 4))])),
            2 => ("Name", dr::Instruction::new(Op::Name, None, None, vec![Operand::IdRef(9), Operand::LiteralString("n".repeat(words * 4))])),
            3 => ("TypeStruct", dr::Instruction::new(Op::TypeStruct, None, Some(9), (0..words).map(|k| Operand::IdRef(k as u32 + 1)).collect())),
            _ => ("SourceContinued", dr::Instruction::new(Op::SourceContinued, None, None, vec![Operand::LiteralString("c".repeat(words * 4))])),
        };
        let place = rng.below(6);
        match place {
            0 => m.debug_string_source.insert(rng.below(m.debug_string_source.len() + 1), big),
            1 => m.debug_names.insert(rng.below(m.debug_names.len() + 1), big),
            2 => m.types_global_values.insert(rng.below(m.types_global_values.len() + 1), big),
            3 => m.annotations.push(big),
            _ => {
                if m.functions.is_empty() {
                    m.functions.push(dr::Function::new());
                }
                let fi = rng.below(m.functions.len());
                let f = &mut m.functions[fi];
                if f.blocks.is_empty() || place == 4 {
                    let mut blk = dr::Block::new();
                    blk.instructions.push(big);
                    f.blocks.push(blk);
                } else {
                    let bi = rng.below(f.blocks.len());
                    let at = rng.below(f.blocks[bi].instructions.len() + 1);
                    f.blocks[bi].instructions.insert(at, big);
                }
            }
        }
        let what = format!("module with an Op{} of more than 65535 words (place {})", kind, place);
        check_any(m, r, &|| crate::util::replay_ref(cfg, "oversized", idx), &what);
        r.seen("oversized_kinds", format!("{}@{}", kind, place));
        r.count("oversized_modules", 1);
    });
    let n = cfg.n(60_000, 40_000_000);
    run_stage(cfg, rep, "random", n, |idx, rng, r| {
        let shape = rng.u32() & 0x1fff;
        let mut b = build(rng, shape, 6);
        check(&mut b, r, &|| crate::util::replay_ref(cfg, "random", idx), shape);
    });
}
