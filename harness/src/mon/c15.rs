//! C15 – module traversals visit exactly the assembled instruction sequence.

use crate::util::{catch, run_stage, Cfg, Json, Report, Rng};
use rspirv::binary::Assemble;
use rspirv::dr::{self, Operand};
use rspirv::spirv::Op;

struct Built {
    module: dr::Module,
    /// expected marker order: globals, then per function
    globals: Vec<u32>,
    functions: Vec<Vec<u32>>,
}

fn mk(rng: &mut Rng, marker: &mut u32) -> (dr::Instruction, u32) {
    *marker += 1;
    let m = *marker;
    let inst = match rng.below(5) {
        0 => dr::Instruction::new(Op::Undef, Some(7), Some(m), vec![]),
        1 => dr::Instruction::new(Op::Label, None, Some(m), vec![]),
        2 => dr::Instruction::new(Op::Name, None, None, vec![Operand::IdRef(m), Operand::LiteralString("n".repeat(rng.below(9)))]),
        3 => dr::Instruction::new(Op::Line, None, None, vec![Operand::IdRef(m), Operand::LiteralBit32(1), Operand::LiteralBit32(2)]),
        _ => dr::Instruction::new(Op::Decorate, None, None, vec![Operand::IdRef(m), Operand::Decoration(rspirv::spirv::Decoration::Block)]),
    };
    (inst, m)
}

/// The marker of an instruction built by `mk` from its assembled words.
fn marker_of_words(w: &[u32]) -> u32 {
    match w[0] & 0xffff {
        1 => w[2],   // Undef: type, id
        248 => w[1], // Label
        _ => w[1],   // Name / Line / Decorate: first operand
    }
}
fn marker_of(i: &dr::Instruction) -> u32 {
    match i.class.opcode {
        Op::Undef | Op::Label => i.result_id.unwrap_or(0),
        _ => match i.operands.first() {
            Some(Operand::IdRef(m)) => *m,
            _ => 0,
        },
    }
}

fn build(rng: &mut Rng, shape: u32, sizes_max: usize) -> Built {
    let mut marker = 100;
    let mut globals = vec![];
    let mut m = dr::Module::new();
    let present = |bit: u32| shape & (1 << bit) != 0;
    if present(0) {
        let mut h = dr::ModuleHeader::new(rng.u32());
        h.version = rng.u32();
        h.generator = rng.u32();
        m.header = Some(h);
    }
    let fill = |v: &mut Vec<dr::Instruction>, on: bool, rng: &mut Rng, globals: &mut Vec<u32>, marker: &mut u32| {
        if on {
            for _ in 0..rng.range(1, sizes_max) {
                let (i, k) = mk(rng, marker);
                v.push(i);
                globals.push(k);
            }
        }
    };
    fill(&mut m.capabilities, present(1), rng, &mut globals, &mut marker);
    fill(&mut m.extensions, present(2), rng, &mut globals, &mut marker);
    fill(&mut m.ext_inst_imports, present(3), rng, &mut globals, &mut marker);
    if present(4) {
        let (i, k) = mk(rng, &mut marker);
        m.memory_model = Some(i);
        globals.push(k);
    }
    fill(&mut m.entry_points, present(5), rng, &mut globals, &mut marker);
    fill(&mut m.execution_modes, present(6), rng, &mut globals, &mut marker);
    fill(&mut m.debug_string_source, present(7), rng, &mut globals, &mut marker);
    fill(&mut m.debug_names, present(8), rng, &mut globals, &mut marker);
    fill(&mut m.debug_module_processed, present(9), rng, &mut globals, &mut marker);
    fill(&mut m.annotations, present(10), rng, &mut globals, &mut marker);
    fill(&mut m.types_global_values, present(11), rng, &mut globals, &mut marker);
    let mut functions = vec![];
    if present(12) {
        for _ in 0..rng.range(1, 3) {
            let mut f = dr::Function::new();
            let mut order = vec![];
            if rng.chance(3, 4) {
                let (i, k) = mk(rng, &mut marker);
                f.def = Some(i);
                order.push(k);
            }
            for _ in 0..rng.below(3) {
                let (i, k) = mk(rng, &mut marker);
                f.parameters.push(i);
                order.push(k);
            }
            for _ in 0..rng.below(4) {
                let mut b = dr::Block::new();
                if rng.chance(3, 4) {
                    let (i, k) = mk(rng, &mut marker);
                    b.label = Some(i);
                    order.push(k);
                }
                for _ in 0..rng.below(4) {
                    let (i, k) = mk(rng, &mut marker);
                    b.instructions.push(i);
                    order.push(k);
                }
                f.blocks.push(b);
            }
            // `end` is recorded last in the expected order although the field precedes parameters
            let end = if rng.chance(3, 4) {
                let (i, k) = mk(rng, &mut marker);
                f.end = Some(i);
                Some(k)
            } else {
                None
            };
            if let Some(k) = end {
                order.push(k);
            }
            m.functions.push(f);
            functions.push(order);
        }
    }
    Built { module: m, globals, functions }
}

fn split_words(words: &[u32], has_header: bool) -> Option<Vec<Vec<u32>>> {
    let mut p = if has_header { 5 } else { 0 };
    let mut out = vec![];
    while p < words.len() {
        let wc = (words[p] >> 16) as usize;
        if wc == 0 || p + wc > words.len() {
            return None;
        }
        out.push(words[p..p + wc].to_vec());
        p += wc;
    }
    Some(out)
}

fn check(b: &mut Built, r: &mut Report, rp: &dyn Fn() -> Json, shape: u32) {
    let m = &b.module;
    let words = match catch(|| m.assemble()) {
        Ok(w) => w,
        Err(p) => {
            r.violation(format!("C15:panic:{}", crate::util::panic_key(&p)), format!("assemble() panicked on shape {:#x}: {}", shape, p.msg), rp());
            return;
        }
    };
    let expected: Vec<u32> = b.globals.iter().copied().chain(b.functions.iter().flatten().copied()).collect();
    let fail = |r: &mut Report, rule: &str, detail: String| r.violation(format!("C15:{}", rule), format!("shape {:#015b}: {}", shape, detail), rp().set("shape", shape));
    // header words
    if let Some(h) = &m.header {
        let hw = [h.magic_number, h.version, h.generator, h.bound, h.reserved_word];
        if words.len() < 5 || words[..5] != hw {
            fail(r, "assemble-header", format!("assembled header {:x?} != header fields {:x?}", &words[..words.len().min(5)], hw));
            return;
        }
    }
    let split = match split_words(&words, m.header.is_some()) {
        Some(s) => s,
        None => {
            fail(r, "assemble-split", "assembled words do not split into instructions by their word counts".into());
            return;
        }
    };
    let asm_markers: Vec<u32> = split.iter().map(|w| marker_of_words(w)).collect();
    if asm_markers != expected {
        fail(r, "assemble-order", format!("assemble() emits markers {:?}, construction order is {:?}", asm_markers, expected));
    }
    let all: Vec<&dr::Instruction> = m.all_inst_iter().collect();
    let all_markers: Vec<u32> = all.iter().map(|i| marker_of(i)).collect();
    if all_markers != asm_markers {
        fail(r, "all_inst_iter", format!("all_inst_iter visits {:?}, assemble() emits {:?}", all_markers, asm_markers));
    }
    // assemble == header ++ concat(assemble(visited))
    let mut concat: Vec<u32> = vec![];
    if let Some(h) = &m.header {
        concat.extend(h.assemble());
    }
    for i in &all {
        concat.extend(i.assemble());
    }
    if concat != words {
        fail(r, "assemble-concat", "assemble() differs from header words ++ assembly of each visited instruction".into());
    }
    let glob: Vec<u32> = m.global_inst_iter().map(marker_of).collect();
    if glob != b.globals || glob[..] != asm_markers[..glob.len().min(asm_markers.len())] {
        fail(r, "global_inst_iter", format!("global_inst_iter visits {:?}, expected the prefix {:?}", glob, b.globals));
    }
    let mut off = b.globals.len();
    for (fi, f) in m.functions.iter().enumerate() {
        let fm: Vec<u32> = f.all_inst_iter().map(marker_of).collect();
        let want = &b.functions[fi];
        let slice = asm_markers.get(off..off + want.len()).map(|s| s.to_vec()).unwrap_or_default();
        if &fm != want || fm != slice {
            fail(r, "function_all_inst_iter", format!("function {} traversal {:?}, assembled slice {:?}, construction {:?}", fi, fm, slice, want));
        }
        let fw = f.assemble();
        let fsplit: Vec<u32> = split_words(&fw, false).unwrap_or_default().iter().map(|w| marker_of_words(w)).collect();
        if &fsplit != want {
            fail(r, "function-assemble", format!("function {} assembles to {:?}, construction {:?}", fi, fsplit, want));
        }
        off += want.len();
    }
    // mutable twins visit the same elements (by address) in the same order
    let ro_all: Vec<*const dr::Instruction> = b.module.all_inst_iter().map(|i| i as *const _).collect();
    let rw_all: Vec<*const dr::Instruction> = b.module.all_inst_iter_mut().map(|i| i as *const dr::Instruction).collect();
    if ro_all != rw_all {
        fail(r, "all_inst_iter_mut", "all_inst_iter_mut visits a different element sequence than all_inst_iter".into());
    }
    let ro_g: Vec<*const dr::Instruction> = b.module.global_inst_iter().map(|i| i as *const _).collect();
    let rw_g: Vec<*const dr::Instruction> = b.module.global_inst_iter_mut().map(|i| i as *const dr::Instruction).collect();
    if ro_g != rw_g {
        fail(r, "global_inst_iter_mut", "global_inst_iter_mut visits a different element sequence than global_inst_iter".into());
    }
    for f in b.module.functions.iter_mut() {
        let ro: Vec<*const dr::Instruction> = f.all_inst_iter().map(|i| i as *const _).collect();
        let rw: Vec<*const dr::Instruction> = f.all_inst_iter_mut().map(|i| i as *const dr::Instruction).collect();
        if ro != rw {
            fail(r, "function_all_inst_iter_mut", "Function::all_inst_iter_mut visits a different element sequence than all_inst_iter".into());
        }
    }
    r.count("instructions_visited", expected.len() as u64);
}

pub fn run(cfg: &Cfg, rep: &mut Report) {
    rep.rule = "directly constructed dr::Module values with unique marker instructions of varying word counts: all 2^13 present/absent combinations of the 13 optional/vector parts (sizes 1..3, functions with missing def/end/label, empty blocks), each checked: assemble() split by word counts vs construction order vs all_inst_iter / global_inst_iter / Function::all_inst_iter and the _mut twins (by element address); thorough adds random shapes. distinct_nontrivial = distinct part combinations".into();
    rep.exhaustive = true;
    run_stage(cfg, rep, "shapes", 1 << 13, |idx, rng, r| {
        let mut b = build(rng, idx as u32, 3);
        if idx == 0x1fff {
            r.sample(Json::obj().set("shape", "all 13 parts present").set("globals", b.globals.len()).set("functions", b.functions.iter().map(|f| Json::from(f.len())).collect::<Vec<_>>()));
        }
        check(&mut b, r, &|| crate::util::replay_ref(cfg, "shapes", idx), idx as u32);
        r.nontrivial(format!("{:x}", idx));
    });
    let n = cfg.n(60_000, 40_000_000);
    run_stage(cfg, rep, "random", n, |idx, rng, r| {
        let shape = rng.u32() & 0x1fff;
        let mut b = build(rng, shape, 6);
        check(&mut b, r, &|| crate::util::replay_ref(cfg, "random", idx), shape);
    });
}
