//! C08 – spirv enums and bit-masks map numbers and names exactly as declared.
//!
//! Oracle: the declaration text of spirv/autogen_spirv.rs (extracted into generated::decls, without
//! reading any conversion code), the frozen reference and the hand-transcribed spec anchors.

use crate::generated::decls::{self, EnumDecl, MaskDecl};
use crate::gram::{self, db};
use crate::util::{run_stage, Cfg, Json, Report};
use std::collections::{BTreeMap, BTreeSet};

pub const ANCHORS: &str = include_str!("../../../reference/spec_anchors.txt");

fn check_enum_number(e: &EnumDecl, sorted: &[u32], n: u32, rep: &mut Report, rp: &dyn Fn() -> Json) {
    let declared = sorted.binary_search(&n).is_ok();
    let got = (e.from_u32)(n);
    let want = if declared { Some(n) } else { None };
    if got != want {
        let kind = if declared { "declared-rejected-or-wrong" } else { "undeclared-accepted" };
        rep.violation(
            format!("C08:from_u32:{}:{}", e.name, kind),
            format!("{}::from_u32({}) = {:?}, declarations say {:?}", e.name, n, got, want),
            rp().set("enum", e.name).set("n", n),
        );
    }
}

fn perturb(name: &str) -> Vec<String> {
    let mut v = vec![name.to_lowercase(), name.to_uppercase(), format!("{}_", name), format!("_{}", name), format!("{} ", name), format!(" {}", name), format!("{}0", name), String::new()];
    if name.len() > 1 {
        v.push(name[..name.len() - 1].to_string());
        v.push(name[1..].to_string());
        let mut cs: Vec<char> = name.chars().collect();
        cs.swap(0, 1);
        v.push(cs.into_iter().collect());
    }
    v
}

pub fn run(cfg: &Cfg, rep: &mut Report) {
    rep.rule = "numbers: every candidate n is converted by from_u32/from_bits of every enum/mask and compared with the declaration text (thorough: all 2^32 numbers of every type); names: every declared name, alias and 11 perturbations per name through FromStr; declarations vs frozen reference and spec anchors; stage `parser-context`: every kind an opcode or an enumerant parameter carries, with declared and perturbed values, inside a parsed module under 9 header versions (known, future, nonsense) - accepted iff declared, by the reference parser. distinct_nontrivial = distinct (type, outcome-class) pairs plus distinct declared (type,value) and (type,name) facts confirmed".into();
    rep.assumptions.push("the frozen reference (dumped from the pinned tree) equals the Khronos grammar of SDK 1.4.309.0".into());
    rep.assumptions.push("spec anchors are a hand-transcribed subset of the SPIR-V 1.6 specification".into());
    let miri = cfg.mode == "miri";
    let enums: &'static [EnumDecl] = decls::ENUMS;
    let masks: &'static [MaskDecl] = decls::MASKS;
    let sorted: Vec<Vec<u32>> = enums
        .iter()
        .map(|e| {
            let mut v: Vec<u32> = e.variants.iter().map(|(_, n)| *n).collect();
            v.sort();
            v
        })
        .collect();
    if enums.len() < 40 || masks.len() < 10 {
        rep.inconclusive.push(format!("declaration extraction found only {} enums / {} masks", enums.len(), masks.len()));
        return;
    }

    // ---- stage: edges (quick and thorough, also under Miri)
    let n_e = enums.len() as u64;
    const SPLIT: u64 = 8;
    run_stage(cfg, rep, "enum-edges", n_e * SPLIT, |idx, _rng, r| {
        let ei = (idx / SPLIT) as usize;
        let part = idx % SPLIT;
        let e = &enums[ei];
        let s = &sorted[ei];
        let dense: u32 = if miri { if cfg.tier_thorough { 1200 } else { 300 } } else { 70_000 };
        let mut n_checked = 0u64;
        let rp = || crate::util::replay_ref(cfg, "enum-edges", idx);
        // neighbours of every declared value (duplicates are harmless, so no set is built: cheap under Miri)
        for (pos, v) in s.iter().enumerate() {
            if pos as u64 % SPLIT != part {
                continue;
            }
            for dlt in -2i64..=2 {
                let x = *v as i64 + dlt;
                if (0..=u32::MAX as i64).contains(&x) {
                    check_enum_number(e, s, x as u32, r, &rp);
                    n_checked += 1;
                }
            }
        }
        for k in 0..32u32 {
            if k as u64 % SPLIT == part {
                for x in [1u32 << k, (1u32 << k).wrapping_sub(1), (1u32 << k).wrapping_add(1), u32::MAX - k] {
                    check_enum_number(e, s, x, r, &rp);
                    n_checked += 1;
                }
            }
        }
        for n in 0..dense {
            if n as u64 % SPLIT == part {
                check_enum_number(e, s, n, r, &rp);
                n_checked += 1;
            }
        }
        r.count("numbers_checked", n_checked);
        r.evaluations += n_checked;
        if part == 0 {
            for v in s {
                r.nontrivial(format!("{}={}", e.name, v));
            }
            r.nontrivial(format!("{}:undeclared", e.name));
        }
    });
    let n_m = masks.len() as u64;
    run_stage(cfg, rep, "mask-edges", n_m, |idx, rng, r| {
        let m = &masks[idx as usize];
        let all = m.consts.iter().fold(0u32, |a, (_, b)| a | b);
        let lib_all = (m.all_bits)();
        if lib_all != all {
            r.violation(format!("C08:mask-all:{}", m.name), format!("{}::all() = {:#x}, declared constants give {:#x}", m.name, lib_all, all), crate::util::replay_ref(cfg, "mask-edges", idx));
        }
        let mut cands: Vec<u32> = vec![0, all, !all, u32::MAX];
        for k in 0..32 {
            cands.push(1 << k);
            cands.push(all | (1 << k));
            cands.push(all & !(1 << k));
        }
        let nrand = if miri { 200 } else { 100_000 };
        for _ in 0..nrand {
            let x = rng.u32();
            cands.push(x);
            cands.push(x & all);
            cands.push((x & all) | (1 << rng.below(32)));
        }
        for n in cands.iter().copied() {
            let want = if n & !all == 0 { Some(n) } else { None };
            let got = (m.from_bits)(n);
            if got != want {
                r.violation(
                    format!("C08:from_bits:{}:{}", m.name, if want.is_some() { "declared-rejected" } else { "undeclared-accepted" }),
                    format!("{}::from_bits({:#x}) = {:?}, declared bits {:#x}", m.name, n, got, all),
                    crate::util::replay_ref(cfg, "mask-edges", idx).set("mask", m.name).set("n", n),
                );
            }
        }
        r.count("mask_numbers_checked", cands.len() as u64);
        r.evaluations += cands.len() as u64;
        for (c, b) in m.consts {
            r.nontrivial(format!("{}::{}={}", m.name, c, b));
        }
    });

    // ---- stage: random numbers (not under Miri)
    if !miri {
        let per = cfg.n(1_000_000, 4_000_000) / n_e;
        run_stage(cfg, rep, "enum-random", n_e * 16, |idx, rng, r| {
            let ei = (idx / 16) as usize;
            let e = &enums[ei];
            let s = &sorted[ei];
            for _ in 0..per / 16 + 1 {
                let n = rng.word();
                check_enum_number(e, s, n, r, &|| crate::util::replay_ref(cfg, "enum-random", idx));
            }
            r.count("numbers_checked", per / 16 + 1);
            r.evaluations += per / 16 + 1;
        });
    }

    // ---- stage: exhaustive 2^32 (thorough, release build only)
    if cfg.tier_thorough && !miri && cfg.mode == "release" {
        const CHUNKS: u64 = 256;
        run_stage(cfg, rep, "enum-exhaustive", n_e * CHUNKS, |idx, _rng, r| {
            let ei = (idx / CHUNKS) as usize;
            let c = idx % CHUNKS;
            let e = &enums[ei];
            let s = &sorted[ei];
            let lo = (c << 24) as u32;
            let hi = lo as u64 + (1u64 << 24);
            let mut next = s.partition_point(|v| *v < lo);
            let mut bad: Option<u32> = None;
            let f = e.from_u32;
            let mut n = lo as u64;
            while n < hi {
                let x = n as u32;
                let declared = next < s.len() && s[next] == x;
                if declared {
                    next += 1;
                }
                let got = f(x);
                let ok = if declared { got == Some(x) } else { got.is_none() };
                if !ok && bad.is_none() {
                    bad = Some(x);
                }
                n += 1;
            }
            if let Some(x) = bad {
                check_enum_number(e, s, x, r, &|| crate::util::replay_ref(cfg, "enum-exhaustive", idx));
            }
            r.count("numbers_checked", 1 << 24);
            r.evaluations += 1 << 24;
        });
        run_stage(cfg, rep, "mask-exhaustive", n_m * CHUNKS, |idx, _rng, r| {
            let mi = (idx / CHUNKS) as usize;
            let c = idx % CHUNKS;
            let m = &masks[mi];
            let all = m.consts.iter().fold(0u32, |a, (_, b)| a | b);
            let lo = c << 24;
            let f = m.from_bits;
            let mut bad = None;
            for n in lo..lo + (1 << 24) {
                let x = n as u32;
                let want = x & !all == 0;
                let got = f(x);
                let ok = if want { got == Some(x) } else { got.is_none() };
                if !ok && bad.is_none() {
                    bad = Some(x);
                }
            }
            if let Some(x) = bad {
                r.violation(format!("C08:from_bits:{}:exhaustive", m.name), format!("{}::from_bits({:#x}) disagrees with declared bits {:#x}", m.name, x, all), crate::util::replay_ref(cfg, "mask-exhaustive", idx).set("n", x));
            }
            r.count("mask_numbers_checked", 1 << 24);
            r.evaluations += 1 << 24;
        });
        rep.exhaustive = true;
    }

    if miri {
        rep.sample(Json::obj().set("miri", "from_u32 of every enum on declared values +-2 and 0..1200; from_bits of every mask on edges and 200 random numbers; an invalid enum tag would be reported as Undefined Behavior"));
        return;
    }
    // ---- stage: names
    run_stage(cfg, rep, "names", n_e, |idx, _rng, r| {
        let e = &enums[idx as usize];
        let rp = || crate::util::replay_ref(cfg, "names", idx).set("enum", e.name);
        // Debug name of each value equals its declared name (by-value constructor is declaration-derived)
        for (name, v) in e.variants {
            match (e.by_value_debug)(*v) {
                Some(d) if d == *name => {}
                other => r.violation(format!("C08:debug-name:{}", e.name), format!("Debug of {}::{} (={}) is {:?}", e.name, name, v, other), rp()),
            }
        }
        if !e.has_from_str {
            return;
        }
        let declared: BTreeMap<&str, u32> = e.variants.iter().map(|(n, v)| (*n, *v)).collect();
        let mut accepted: BTreeMap<String, u32> = BTreeMap::new();
        for (name, v) in e.variants {
            accepted.insert(name.to_string(), *v);
            let got = (e.parse)(name).flatten();
            if got != Some(*v) {
                r.violation(format!("C08:fromstr-name:{}", e.name), format!("\"{}\".parse::<{}>() = {:?}, declared value {}", name, e.name, got, v), rp().set("name", *name));
            }
            r.nontrivial(format!("{}:name:{}", e.name, name));
        }
        for (alias, target) in e.aliases {
            let tv = declared.get(target).copied();
            if let Some(tv) = tv {
                accepted.insert(alias.to_string(), tv);
            }
            let got = (e.parse)(alias).flatten();
            if tv.is_none() || got != tv {
                r.violation(format!("C08:fromstr-alias:{}", e.name), format!("alias \"{}\" of {}::{} parses to {:?}, expected {:?}", alias, e.name, target, got, tv), rp().set("name", *alias));
            }
            r.nontrivial(format!("{}:alias:{}", e.name, alias));
        }
        let names: Vec<String> = accepted.keys().cloned().collect();
        for n in &names {
            for p in perturb(n) {
                let got = (e.parse)(&p).flatten();
                let want = accepted.get(&p).copied();
                if got != want {
                    r.violation(format!("C08:fromstr-undeclared:{}", e.name), format!("{:?}.parse::<{}>() = {:?}, declarations say {:?}", p, e.name, got, want), rp().set("name", p.clone()));
                }
                r.count("name_perturbations", 1);
                r.evaluations += 1;
            }
        }
    });

    // ---- stage: the same acceptance rule where conversions happen in practice - inside a parse. Every kind
    //      that an opcode (or an enumerant parameter) carries, declared and undeclared values, under header
    //      versions the grammar knows, does not know yet, and nonsense; verdict by the reference parser
    if !miri {
        use crate::gram::{db, kind_name};
        use crate::geninst::{Form, Gen, LitStyle};
        let d = db();
        let carriers = crate::mon::c02::carriers();
        let mut kinds: Vec<crate::gram::K> = carriers.keys().copied().collect();
        kinds.sort_by_key(|k| kind_name(*k));
        const VERSIONS: &[u32] = &[0x0001_0000, 0x0001_0300, 0x0001_0600, 0x0001_0700, 0x0001_0a00, 0x0001_ff00, 0x0002_0000, 0x0000_0000, 0x00ff_ff00];
        let per_kind = cfg.n(120, 20_000);
        let kinds_ref = &kinds;
        run_stage(cfg, rep, "parser-context", kinds.len() as u64 * per_kind, |idx, rng, r| {
            let k = kinds_ref[(idx % kinds_ref.len() as u64) as usize];
            let cs = &carriers[&k];
            let c = &cs[rng.below(cs.len())];
            let declared = rng.chance(1, 2);
            let v = match (decls::kind_class(k), declared) {
                (0, true) => {
                    let vals = d.enum_values(k);
                    vals[rng.below(vals.len())].1
                }
                (0, false) => {
                    let vals = d.enum_values(k);
                    let base = vals[rng.below(vals.len())].1;
                    let any = rng.u32();
                    *rng.pick(&[base.wrapping_add(1), base.wrapping_sub(1), base | 0x8000_0000, base | 0x1_0000, 0x7fff_ffff, u32::MAX, any])
                }
                (_, true) => rng.u32() & d.mask_all(k),
                (_, false) => {
                    let free = !d.mask_all(k);
                    let mut b = 1u32 << rng.below(32);
                    for _ in 0..32 {
                        if b & free != 0 {
                            break;
                        }
                        b = b.rotate_left(1);
                    }
                    (rng.u32() & d.mask_all(k)) | (b & free)
                }
            };
            let mut gen = Gen::with_id_policy(rng);
            gen.lit = LitStyle::Marker;
            let mut ctx = crate::mon::c02::context(&mut gen);
            let mut forces = c.pre.clone();
            forces.push((k, v));
            gen.forces = forces;
            let x = match gen.inst(rng, &d.insts[c.op], Form::Max) {
                Some(x) if gen.forces.is_empty() => x,
                _ => {
                    r.count("parser_context_not_generable", 1);
                    return;
                }
            };
            ctx.push(x);
            let version = *rng.pick(VERSIONS);
            let (w, _m, _s) = crate::genmod::encode_module(version, rng.u32(), gen.next_id, &ctx, None);
            let bytes = crate::util::words_to_bytes(&w);
            let label = format!("{} value {:#x} ({}) in Op{} under header version {:#x}", kind_name(k), v, if declared { "declared" } else { "perturbed" }, d.insts[c.op].opname, version);
            let rp = || crate::util::replay_ref(cfg, "parser-context", idx).set("label", label.clone());
            if crate::mon::c03::compare(&bytes, &label, r, &rp, "C08").is_some() {
                r.nontrivial(format!("ctx:{}:{}:{:x}", kind_name(k), declared, version));
            }
            r.count("parser_context_cases", 1);
        });
    }

    // ---- stage: declarations vs frozen reference and anchors (single case)
    run_stage(cfg, rep, "reference", 1, |idx, _rng, r| {
        let d = db();
        let rp = || crate::util::replay_ref(cfg, "reference", idx);
        let live_e: BTreeMap<String, BTreeSet<(String, u32)>> = enums.iter().map(|e| (e.name.to_string(), e.variants.iter().map(|(n, v)| (n.to_string(), *v)).collect())).collect();
        let ref_e: BTreeMap<String, BTreeSet<(String, u32)>> = d.enums.iter().map(|(k, v)| (k.clone(), v.iter().cloned().collect())).collect();
        for k in live_e.keys().chain(ref_e.keys()).collect::<BTreeSet<_>>() {
            let a = live_e.get(k).cloned().unwrap_or_default();
            let b = ref_e.get(k).cloned().unwrap_or_default();
            for x in a.symmetric_difference(&b) {
                r.violation(format!("C08:reference-enum:{}:{}", k, x.0), format!("enumerant {}::{}={} is {} but not in the other (live vs frozen reference)", k, x.0, x.1, if a.contains(x) { "in the live tree" } else { "in the frozen reference" }), rp());
            }
            r.count("reference_enumerants_compared", a.len() as u64);
        }
        let live_a: BTreeSet<(String, String, String)> = enums.iter().flat_map(|e| e.aliases.iter().map(move |(a, t)| (e.name.to_string(), a.to_string(), t.to_string()))).collect();
        let ref_a: BTreeSet<(String, String, String)> = d.aliases.iter().flat_map(|(k, v)| v.iter().map(move |(a, t)| (k.clone(), a.clone(), t.clone()))).collect();
        for x in live_a.symmetric_difference(&ref_a) {
            r.violation(format!("C08:reference-alias:{}:{}", x.0, x.1), format!("alias {}::{} -> {} differs between live tree and frozen reference", x.0, x.1, x.2), rp());
        }
        let live_m: BTreeSet<(String, String, u32)> = masks.iter().flat_map(|m| m.consts.iter().map(move |(c, b)| (m.name.to_string(), c.to_string(), *b))).collect();
        let ref_m: BTreeSet<(String, String, u32)> = d.masks.iter().flat_map(|(k, v)| v.iter().map(move |(c, b)| (k.clone(), c.clone(), *b))).collect();
        for x in live_m.symmetric_difference(&ref_m) {
            r.violation(format!("C08:reference-mask:{}:{}", x.0, x.1), format!("mask constant {}::{}={} differs between live tree and frozen reference", x.0, x.1, x.2), rp());
        }
        r.count("reference_mask_constants_compared", live_m.len() as u64);
        // anchors
        match gram::parse_frozen(ANCHORS) {
            Err(e) => r.inconclusive.push(format!("spec anchors unreadable: {}", e)),
            Ok(a) => {
                for (k, vs) in &a.enums {
                    // the Op enum is anchored through `inst` records
                    for (n, v) in vs {
                        let ok = live_e.get(k).map(|s| s.contains(&(n.clone(), *v))).unwrap_or(false);
                        if !ok {
                            r.violation(format!("C08:anchor-enum:{}:{}", k, n), format!("specification says {}::{} = {}; live declarations disagree", k, n, v), rp());
                        }
                        r.count("anchors_checked", 1);
                    }
                }
                for (k, vs) in &a.masks {
                    for (n, v) in vs {
                        if !live_m.contains(&(k.clone(), n.clone(), *v)) {
                            r.violation(format!("C08:anchor-mask:{}:{}", k, n), format!("specification says {}::{} = {}; live declarations disagree", k, n, v), rp());
                        }
                        r.count("anchors_checked", 1);
                    }
                }
                for i in &a.insts {
                    let ok = live_e.get("Op").map(|s| s.contains(&(i.opname.clone(), i.opcode as u32))).unwrap_or(false);
                    if !ok {
                        r.violation(format!("C08:anchor-op:{}", i.opname), format!("specification says Op{} = {}; live declarations disagree", i.opname, i.opcode), rp());
                    }
                    r.count("anchors_checked", 1);
                }
            }
        }
    });
    rep.sample(Json::obj().set("enum", enums[1].name).set("declared", Json::Arr(sorted[1].iter().map(|v| Json::from(*v)).collect())).set("checked", "from_u32(n) for n in edges±2, 0..70000, 2^k±1, random; thorough: all 2^32"));
    rep.sample(Json::obj().set("mask", masks[0].name).set("declared_bits", masks[0].consts.iter().fold(0u32, |a, (_, b)| a | b)));
    rep.extra.push(("x_types".into(), Json::obj().set("enums", enums.len()).set("masks", masks.len()).set("enums_with_FromStr", enums.iter().filter(|e| e.has_from_str).count())));
}
