//! C10 – context-dependent literal widths follow the types declared earlier (in the same parse).

use crate::gram::{self, AInst, AOp, AVal, K};
use crate::model::{NumTy, TypeModel, Width};
use crate::refparse::{refparse, Fault, RefOutcome};
use crate::rs;
use crate::util::{hex_words, run_stage, words_to_bytes, Cfg, Json, Report, Rng};
use rspirv::binary::Assemble;
use rspirv::dr::Operand;
use rspirv::verif;
use std::collections::HashMap;

pub struct Hist {
    pub insts: Vec<AInst>,
    /// index of the instruction expected to fail with TypeUnsupported (model), if any
    pub unsupported_at: Option<usize>,
    /// (instruction index, expected literal operand count as 32/64 flags)
    pub consumers: Vec<(usize, Vec<bool>)>,
    pub note: String,
}

fn rand_width(rng: &mut Rng) -> u32 {
    match rng.below(10) {
        0..=4 => *rng.pick(&[8u32, 16, 32, 64]),
        5..=7 => rng.range(1, 70) as u32,
        8 => *rng.pick(&[96u32, 128, 0, 65, 63, 33, 31, 17, 15, 9, 7]),
        _ => rng.range(1, 128) as u32,
    }
}

/// `id_base` lets a poisoning history reuse the very same ids with other widths.
pub fn gen_history(rng: &mut Rng, id_base: u32) -> Hist {
    gen_history_ids(rng, id_base, None)
}

/// `scatter`: draw ids from interesting values/ranges (the same seed gives the same id sequence, so a
/// poisoning history can rebind exactly the same ids).
pub fn gen_history_ids(rng: &mut Rng, id_base: u32, scatter: Option<u64>) -> Hist {
    let mut idgen = crate::geninst::Gen::new(id_base + 1);
    if let Some(s) = scatter {
        idgen.scatter_ids(s);
    }
    let mut fresh = || idgen.fresh();
    let mut model = TypeModel::new();
    let mut types: Vec<u32> = vec![];
    let mut values: Vec<u32> = vec![];
    let mut insts: Vec<AInst> = vec![];
    let mut consumers = vec![];
    let mut unsupported_at = None;
    let n = rng.range(3, 30);
    let mut note = String::new();
    // ids that consumers may name BEFORE their (single) definition: the width is decided by what precedes the
    // consumer, so the same selector / type id may be sized differently before and after it is defined
    let mut future_vals: Vec<u32> = (0..rng.below(4)).map(|_| fresh()).collect();
    let mut future_types: Vec<u32> = (0..rng.below(3)).map(|_| fresh()).collect();
    for _ in 0..n {
        let choice = rng.below(10);
        let inst = match choice {
            0..=2 => {
                let id = if !future_types.is_empty() && rng.chance(1, 3) { future_types.swap_remove(rng.below(future_types.len())) } else { fresh() };
                let i = if rng.chance(2, 3) { AInst::named("TypeInt", None, Some(id), vec![AOp::lit(rand_width(rng)), AOp::lit(rng.below(2) as u32)]) } else { AInst::named("TypeFloat", None, Some(id), vec![AOp::lit(rand_width(rng))]) };
                types.push(id);
                i
            }
            3..=4 => {
                // value definition whose result type is a declared type, an undeclared id, or a non-numeric type
                let t = if !future_types.is_empty() && rng.chance(1, 10) { *rng.pick(&future_types) } else if types.is_empty() || rng.chance(1, 6) { fresh() } else { *rng.pick(&types) };
                let id = if !future_vals.is_empty() && rng.chance(1, 3) { future_vals.swap_remove(rng.below(future_vals.len())) } else { fresh() };
                values.push(id);
                match rng.below(5) {
                    0 => AInst::named("Undef", Some(t), Some(id), vec![]),
                    1 => AInst::named("ConstantNull", Some(t), Some(id), vec![]),
                    2 => AInst::named("Variable", Some(t), Some(id), vec![AOp::w(K::StorageClass, 6)]),
                    3 => AInst::named("Load", Some(t), Some(id), vec![AOp::id(fresh())]),
                    _ => AInst::named("IAdd", Some(t), Some(id), vec![AOp::id(fresh()), AOp::id(fresh())]),
                }
            }
            5 => {
                // non-numeric type declarations and other noise that must not influence widths
                let id = fresh();
                match rng.below(6) {
                    3 => AInst::named("FunctionEnd", None, None, vec![]),
                    4 => AInst::named("Function", Some(types.first().copied().unwrap_or(1)), Some(id), vec![AOp::w(K::FunctionControl, 0), AOp::id(2)]),
                    5 => AInst::named("Label", None, Some(id), vec![]),
                    0 if rng.chance(1, 2) => {
                        // capabilities and extensions (any of them, also the ones about exotic integer / float
                        // widths): they never change how many words a literal takes
                        let caps = crate::gram::db().enum_values(K::Capability);
                        let live = crate::generated::decls::ENUMS.iter().find(|e| e.name == "Capability").map(|e| e.variants).unwrap_or(&[]);
                        let v = if !live.is_empty() && rng.chance(1, 2) { live[rng.below(live.len())].1 } else { caps[rng.below(caps.len())].1 };
                        if rng.chance(3, 4) {
                            AInst::named("Capability", None, None, vec![AOp::w(K::Capability, v)])
                        } else {
                            AInst::named("Extension", None, None, vec![AOp::s(*rng.pick(&["SPV_INTEL_arbitrary_precision_integers", "SPV_KHR_bfloat16", "SPV_EXT_float8", "SPV_KHR_float_controls", "SPV_INTEL_arbitrary_precision_floating_point"]))])
                        }
                    }
                    0 => AInst::named("TypeBool", None, Some(id), vec![]),
                    1 => {
                        // composite types over the numeric types declared so far (vector, matrix of such a vector,
                        // array, pointer): they are types a constant or a selector's value can name, and a literal
                        // of such a type takes one word whatever the component's width is (round 8: a tracker
                        // that files vectors and matrices under their component type)
                        let comp = if types.is_empty() { 1 } else { *rng.pick(&types) };
                        let i = match rng.below(4) {
                            0 | 1 => AInst::named("TypeVector", None, Some(id), vec![AOp::id(comp), AOp::lit(2 + rng.below(3) as u32)]),
                            2 => AInst::named("TypeMatrix", None, Some(id), vec![AOp::id(comp), AOp::lit(2 + rng.below(3) as u32)]),
                            _ => AInst::named("TypePointer", None, Some(id), vec![AOp::w(K::StorageClass, 6), AOp::id(comp)]),
                        };
                        if rng.chance(3, 4) {
                            types.push(id);
                        }
                        i
                    }
                    _ => AInst::named("Name", None, None, vec![AOp::id(id), AOp::s("n")]),
                }
            }
            6..=7 => {
                // OpConstant / OpSpecConstant
                let t = if !future_types.is_empty() && rng.chance(1, 6) { *rng.pick(&future_types) } else if types.is_empty() || rng.chance(1, 8) { fresh() } else { *rng.pick(&types) };
                let id = if !future_vals.is_empty() && rng.chance(1, 6) { future_vals.swap_remove(rng.below(future_vals.len())) } else { fresh() };
                let name = if rng.chance(1, 2) { "Constant" } else { "SpecConstant" };
                match model.width(t) {
                    Width::One => {
                        consumers.push((insts.len(), vec![false]));
                        values.push(id);
                        AInst::named(name, Some(t), Some(id), vec![AOp { kind: K::LiteralContextDependentNumber, val: AVal::W(rng.word()) }])
                    }
                    Width::Two => {
                        consumers.push((insts.len(), vec![true]));
                        values.push(id);
                        AInst::named(name, Some(t), Some(id), vec![AOp { kind: K::LiteralContextDependentNumber, val: AVal::W64(((rng.word() as u64) << 32) | rng.word() as u64) }])
                    }
                    _ => {
                        // unsupported width: the parse must stop here with an unsupported-type error
                        unsupported_at = Some(insts.len());
                        note = format!("{} of unsupported type {:?}", name, model.get(t));
                        insts.push(AInst::named(name, Some(t), Some(id), vec![AOp { kind: K::LiteralContextDependentNumber, val: AVal::W(rng.word()) }]));
                        break;
                    }
                }
            }
            _ => {
                // OpSwitch on a value (typed through its defining instruction's result type) or unknown id
                let sel = if !future_vals.is_empty() && rng.chance(1, 4) { *rng.pick(&future_vals) } else if values.is_empty() || rng.chance(1, 8) { fresh() } else { *rng.pick(&values) };
                let mut ops = vec![AOp::id(sel), AOp::id(fresh())];
                let cases = rng.below(5);
                match model.width(sel) {
                    Width::One | Width::Two => {
                        let two = model.width(sel) == Width::Two;
                        for _ in 0..cases {
                            let v = if two { AVal::W64(((rng.word() as u64) << 32) | rng.word() as u64) } else { AVal::W(rng.word()) };
                            ops.push(AOp { kind: K::LiteralContextDependentNumber, val: v });
                            ops.push(AOp::id(fresh()));
                        }
                        consumers.push((insts.len(), vec![two; cases]));
                        AInst::named("Switch", None, None, ops)
                    }
                    _ => {
                        if cases == 0 {
                            // no literal at all: width never consulted
                            AInst::named("Switch", None, None, ops)
                        } else {
                            unsupported_at = Some(insts.len());
                            note = format!("Switch on selector of unsupported type {:?}", model.get(sel));
                            ops.push(AOp { kind: K::LiteralContextDependentNumber, val: AVal::W(rng.word()) });
                            ops.push(AOp::id(fresh()));
                            insts.push(AInst::named("Switch", None, None, ops));
                            break;
                        }
                    }
                }
            }
        };
        model.observe(&inst);
        insts.push(inst);
    }
    Hist { insts, unsupported_at, consumers, note }
}

fn binary_of(h: &Hist) -> Vec<u8> {
    let mut w = gram::header_varied(h.insts.len() as u64 * 31 + h.insts.first().map(|i| i.enc().len() as u64).unwrap_or(0), 1 << 20);
    for i in &h.insts {
        w.extend(i.enc());
    }
    words_to_bytes(&w)
}

/// Canonical text of a parse outcome (for the isolation comparison).
fn outcome_text(p: &rs::Parsed) -> String {
    let mut s = format!("{:?}|", p.result.as_ref().err().map(rs::state_name));
    for i in &p.rec.insts {
        s.push_str(&rs::show_inst(i));
        s.push(';');
    }
    s
}

fn check_history(h: &Hist, r: &mut Report, rp: &dyn Fn() -> Json) -> Option<String> {
    let bytes = binary_of(h);
    let fail = |r: &mut Report, rule: &str, msg: String| {
        r.violation(format!("C10:{}", rule), format!("{}\nhistory: {}", msg, h.insts.iter().map(|i| i.show()).collect::<Vec<_>>().join(" ; ")), rp().set("binary", crate::util::hex_bytes(&bytes)));
    };
    verif::record(true);
    let _ = verif::drain();
    let p = match rs::parse_rec(&bytes) {
        Ok(p) => p,
        Err(p) => {
            verif::record(false);
            fail(r, "panic", format!("parser panicked: {} at {}", p.msg, p.loc));
            return None;
        }
    };
    let events = verif::drain();
    verif::record(false);
    // --- model expectation
    match (h.unsupported_at, &p.result) {
        (None, Ok(())) => {}
        (Some(k), Err(e)) => {
            let cls = rs::classify_state(e);
            if cls.map(|c| c.0) != Some(Fault::TypeUnsupported) {
                fail(r, "unsupported-width-error", format!("instruction #{} ({}) must fail with an unsupported-type error, got {:?}", k + 1, h.note, e));
                return None;
            }
            if p.rec.insts.len() != k {
                fail(r, "unsupported-width-prefix", format!("{} instructions delivered before the unsupported literal at #{}", p.rec.insts.len(), k + 1));
                return None;
            }
            if let Some((_, _, Some(idx))) = cls {
                if idx != k + 1 {
                    fail(r, "unsupported-width-index", format!("error names instruction {}, the offending one is #{}", idx, k + 1));
                }
            }
            r.nontrivial(format!("unsupported:{}", h.note));
        }
        (None, Err(e)) => {
            fail(r, "rejected", format!("history with supported widths only was rejected: {:?}", e));
            return None;
        }
        (Some(k), Ok(())) => {
            fail(r, "unsupported-width-accepted", format!("instruction #{} ({}) was accepted", k + 1, h.note));
            return None;
        }
    }
    // --- delivered literals have the model's widths, and re-assemble to the same word count
    for (idx, flags) in &h.consumers {
        let want = &h.insts[*idx];
        let got = match p.rec.insts.get(*idx) {
            Some(g) => g,
            None => continue,
        };
        let lits: Vec<bool> = got.operands.iter().filter_map(|o| match o {
            Operand::LiteralBit32(_) => Some(false),
            Operand::LiteralBit64(_) => Some(true),
            _ => None,
        }).collect();
        let name = want.opname();
        if &lits != flags {
            fail(r, &format!("width:{}", name), format!("instruction #{} {}: delivered literal widths {:?} (true = 64 bit), model {:?}", idx + 1, want.show(), lits, flags));
            return None;
        }
        if Some(got) != want.to_dr().as_ref() {
            fail(r, &format!("content:{}", name), format!("instruction #{}: delivered {} but the binary encodes {}", idx + 1, rs::show_inst(got), want.show()));
            return None;
        }
        let re = got.assemble();
        if re != want.enc() {
            fail(r, &format!("reassemble:{}", name), format!("instruction #{} re-assembles to {} words ({}), input had {}", idx + 1, re.len(), hex_words(&re), want.enc().len()));
            return None;
        }
        for f in flags {
            r.nontrivial(format!("{}:{}", name, if *f { 64 } else { 32 }));
        }
        r.count("literals_checked", flags.len() as u64);
    }
    // --- reference parser agrees as well (independent second opinion on the whole stream)
    let rp2 = refparse(&bytes);
    match (&rp2.outcome, &p.result) {
        (RefOutcome::Accept, Ok(())) | (RefOutcome::Reject(_), Err(_)) | (RefOutcome::Unspecified { .. }, _) => {}
        (a, b) => {
            fail(r, "refparse", format!("reference parser says {:?}, rspirv says {:?}", a, b.as_ref().err()));
            return None;
        }
    }
    // --- H3: every tracker event of this parse belongs to the tracker created by this parse, and
    //     every Resolve is answered from that tracker's own Track events
    let mut inst_id: Option<usize> = None;
    let mut tracked: HashMap<u32, String> = HashMap::new();
    for e in &events {
        match e {
            verif::Event::TrackerNew { instance } => {
                if inst_id.is_some() {
                    fail(r, "hook-two-trackers", "one parse created more than one type tracker".into());
                    return None;
                }
                inst_id = Some(*instance);
            }
            verif::Event::TrackerTrack { instance, rid, ty } => {
                if Some(*instance) != inst_id {
                    fail(r, "hook-foreign-tracker", format!("Track event of tracker instance {} during the parse that created instance {:?}", instance, inst_id));
                    return None;
                }
                tracked.insert(*rid, ty.clone());
            }
            verif::Event::TrackerResolve { instance, id, result } => {
                if Some(*instance) != inst_id {
                    fail(r, "hook-foreign-tracker", format!("Resolve event of tracker instance {} during the parse that created instance {:?}", instance, inst_id));
                    return None;
                }
                if result.as_ref() != tracked.get(id) {
                    fail(r, "hook-resolve-source", format!("resolve(%{}) = {:?} but this parse tracked {:?}", id, result, tracked.get(id)));
                    return None;
                }
                r.count("hook_resolve_events", 1);
            }
            _ => {}
        }
    }
    Some(outcome_text(&p))
}

pub fn run(cfg: &Cfg, rep: &mut Report) {
    rep.rule = "histories of 3..30 instructions (OpTypeInt/OpTypeFloat of widths 0..128 dense around 8/16/32/64, value definitions typed by them or by composite types over them (vector, matrix, pointer: one word whatever the component), OpConstant/OpSpecConstant/OpSwitch consumers with 0..4 cases, noise) generated against the type-width model; each parsed alone (delivered literal widths, unsupported-type errors, re-assembled word counts, H3 tracker events), then re-parsed after a poisoning history that binds the same ids to other widths, and on all threads at once; outcomes must be identical. distinct_nontrivial = distinct (consumer opcode, width) and unsupported-type classes observed".into();
    let n = cfg.n(120_000, 15_000_000);
    run_stage(cfg, rep, "histories", n, |idx, rng, r| {
        let rp = || crate::util::replay_ref(cfg, "histories", idx);
        let scatter = if rng.chance(1, 3) { Some(rng.next()) } else { None };
        let base = if scatter.is_none() && rng.chance(1, 2) {
            let l = crate::geninst::interesting_ids();
            l[rng.below(l.len())].saturating_sub(rng.below(30) as u32).min(u32::MAX - 10_000)
        } else {
            10
        };
        let h = gen_history_ids(rng, base, scatter);
        if idx < 2 {
            r.sample(Json::obj().set("history", h.insts.iter().take(8).map(|i| Json::from(i.show())).collect::<Vec<_>>()).set("unsupported_at", h.unsupported_at.map(|x| x as i64).unwrap_or(-1)));
        }
        let alone = match check_history(&h, r, &rp) {
            Some(t) => t,
            None => return,
        };
        // poison: another history over the SAME ids, then the original again
        let poison = gen_history_ids(rng, base, scatter);
        let _ = rs::parse_rec(&binary_of(&poison));
        let bytes = binary_of(&h);
        match rs::parse_rec(&bytes) {
            Ok(p) => {
                if outcome_text(&p) != alone {
                    r.violation("C10:isolation-sequential".to_string(), format!("parsing the same binary after an unrelated parse gave a different outcome\nfirst : {}\nsecond: {}", alone, outcome_text(&p)), rp().set("binary", crate::util::hex_bytes(&bytes)));
                }
            }
            Err(p) => r.violation("C10:panic".to_string(), p.msg, rp()),
        }
        r.count("isolation_reparses", 1);
    });
    // boundary-value histories: hundreds of distinct numeric types before the consumers, consumers in a
    // later function typed by module-scope values
    run_stage(cfg, rep, "scale", cfg.n(60, 3000), |idx, rng, r| {
        let (label, insts) = crate::scale::scale_module(rng, [1u64, 7, 11][(idx % 3) as usize]);
        let mut w = gram::header(0x0001_0600, 0, 1 << 22);
        for i in &insts {
            w.extend(i.enc());
        }
        let bytes = words_to_bytes(&w);
        let rp = || crate::util::replay_ref(cfg, "scale", idx).set("label", label.clone());
        match rs::parse_rec(&bytes) {
            Err(p) => r.violation("C10:panic".to_string(), format!("{}: parser panicked: {}", label, p.msg), rp()),
            Ok(p) => {
                if let Err(e) = &p.result {
                    r.violation("C10:scale-rejected".to_string(), format!("{}: a history whose literals follow the declared widths is rejected: {:?} after {} of {} instructions", label, e, p.rec.insts.len(), insts.len()), rp());
                    return;
                }
                for (k, (got, want)) in p.rec.insts.iter().zip(insts.iter()).enumerate() {
                    if Some(got) != want.to_dr().as_ref() {
                        r.violation(format!("C10:scale-content:{}", want.opname()), format!("{}: instruction #{} delivered as {}, the stream encodes {}", label, k + 1, rs::show_inst(got), want.show()), rp());
                        return;
                    }
                }
                r.nontrivial(format!("scale:{}", label));
            }
        }
    });
    // concurrent isolation: every thread parses an interleaving of shared histories; results per
    // history must be identical across threads (run_stage itself uses all threads)
    let shared: Vec<(Vec<u8>, String)> = {
        let mut rng = Rng::new(cfg.seed ^ 0xC10);
        (0..64)
            .filter_map(|_| {
                let h = gen_history(&mut rng, 10);
                let b = binary_of(&h);
                rs::parse_rec(&b).ok().map(|p| (b, outcome_text(&p)))
            })
            .collect()
    };
    let shared_ref = &shared;
    run_stage(cfg, rep, "concurrent", cfg.n(20_000, 2_000_000), |idx, rng, r| {
        if shared_ref.is_empty() {
            return;
        }
        let (b, want) = &shared_ref[rng.below(shared_ref.len())];
        if let Ok(p) = rs::parse_rec(b) {
            if &outcome_text(&p) != want {
                r.violation("C10:isolation-concurrent".to_string(), "a parse running concurrently with parses of other histories produced a different outcome".to_string(), crate::util::replay_ref(cfg, "concurrent", idx));
            }
        }
    });
    let _ = NumTy::Float(0);
}
