//! C14 – the parser drives the consumer in protocol order and obeys its actions.

use crate::geninst::{Form, Gen};
use crate::gram::{self, db, AInst};
use crate::util::{catch, hex_bytes, run_stage, words_to_bytes, Cfg, Json, Report, Rng};
use rspirv::binary::{Consumer, ParseAction, ParseState};
use rspirv::dr;
use std::{error, fmt};

#[derive(Debug)]
struct Token(u64);
impl fmt::Display for Token {
    fn fmt(&self, f: &mut fmt::Formatter) -> fmt::Result {
        write!(f, "token {}", self.0)
    }
}
impl error::Error for Token {}

#[derive(Clone, Copy, Debug, PartialEq)]
enum Act {
    Continue,
    Stop,
    Error,
}

/// Number of different error values a scripted consumer can answer with.
const N_PAYLOADS: usize = 16;

/// The consumer's own error value number `p`: a private type, every kind of error the library itself
/// defines (parse states including the "complete" and "stop requested" ones, decode errors, loader errors),
/// and standard-library errors (boxed string, zero-sized fmt::Error, io::Error).
fn payload(p: usize, token: u64) -> Box<dyn error::Error + Send + Sync> {
    use rspirv::binary::DecodeError as DE;
    match p % N_PAYLOADS {
        0 => Box::new(Token(token)),
        1 => Box::new(ParseState::Complete),
        2 => Box::new(ParseState::ConsumerStopRequested),
        3 => Box::new(ParseState::ConsumerError(Box::new(Token(token)))),
        4 => Box::new(ParseState::HeaderIncorrect),
        5 => Box::new(ParseState::OpcodeUnknown(token as usize, 1, 0xfffe)),
        6 => Box::new(ParseState::OperandError(DE::StreamExpected(token as usize))),
        7 => Box::new(ParseState::HeaderIncomplete(DE::LimitReached(token as usize))),
        8 => Box::new(DE::StreamExpected(token as usize)),
        9 => Box::new(DE::LimitReached(token as usize)),
        10 => Box::new(dr::Error::NestedFunction),
        11 => Box::new(dr::Error::DetachedInstruction(None)),
        12 => format!("consumer error {}", token).into(),
        13 => Box::new(fmt::Error),
        14 => Box::new(std::io::Error::new(std::io::ErrorKind::Other, format!("io {}", token))),
        _ => Box::new(ParseState::EndiannessUnsupported),
    }
}

fn thin(e: &(dyn error::Error + Send + Sync + 'static)) -> usize {
    e as *const (dyn error::Error + Send + Sync) as *const u8 as usize
}

struct Scripted {
    /// callback position at which to answer `act` (0 = initialize, 1 = header, 2.. = instructions, last = finalize)
    at: usize,
    act: Act,
    token: u64,
    payload: usize,
    /// address and Debug rendering of the error value handed to the parser
    sent: Option<(usize, String)>,
    log: Vec<String>,
    insts: Vec<dr::Instruction>,
    header: Option<dr::ModuleHeader>,
    calls: usize,
    /// a consumer may itself parse (a linking consumer loading another module): when set, the callback that
    /// answers first runs a complete parse of these bytes and keeps that parse's callback log
    nest: Option<Vec<u8>>,
    nested_log: Option<Vec<String>>,
}

impl Scripted {
    fn answer(&mut self, what: &str) -> ParseAction {
        self.log.push(what.to_string());
        let pos = self.calls;
        self.calls += 1;
        if pos == self.at {
            if let Some(b) = self.nest.take() {
                let mut inner = Scripted { at: usize::MAX, act: Act::Continue, token: 0, payload: 0, sent: None, log: vec![], insts: vec![], header: None, calls: 0, nest: None, nested_log: None };
                let _ = rspirv::binary::parse_bytes(&b, &mut inner);
                self.nested_log = Some(inner.log);
            }
            match self.act {
                Act::Continue => ParseAction::Continue,
                Act::Stop => ParseAction::Stop,
                Act::Error => {
                    let b = payload(self.payload, self.token);
                    self.sent = Some((thin(&*b), format!("{:?}", b)));
                    ParseAction::Error(b)
                }
            }
        } else {
            ParseAction::Continue
        }
    }
}

impl Consumer for Scripted {
    fn initialize(&mut self) -> ParseAction {
        self.answer("initialize")
    }
    fn finalize(&mut self) -> ParseAction {
        self.answer("finalize")
    }
    fn consume_header(&mut self, h: dr::ModuleHeader) -> ParseAction {
        self.header = Some(h);
        self.answer("header")
    }
    fn consume_instruction(&mut self, i: dr::Instruction) -> ParseAction {
        self.insts.push(i);
        self.answer("inst")
    }
}

fn gen_insts(rng: &mut Rng, n: usize) -> Vec<AInst> {
    let d = db();
    let mut gen = Gen::new(100);
    let mut v = vec![];
    while v.len() < n {
        let ri = &d.insts[rng.below(d.insts.len())];
        if let Some(i) = gen.inst(rng, ri, Form::Random) {
            gen.observe(&i);
            v.push(i);
        }
    }
    v
}

/// Runs the parser over `w` once per (callback position in `ks`, action) with a scripted consumer answering
/// there, and compares callback log, delivered content and result with the protocol. `full` is the callback
/// log of an all-continue consumer; `k == full.len()` means "never answer anything but continue".
#[allow(clippy::too_many_arguments)]
fn check_protocol(r: &mut Report, rp: &dyn Fn() -> Json, w: &[u32], bytes: &[u8], via_words: bool, full: &[&str], has_parse_error: bool, want: Option<(&[Option<dr::Instruction>], &[AInst])>, want_header: Option<(u32, u32)>, ks: &[usize], idx: u64, ctx: &str, key: &str) {
    let positions = full.len();
    for &k in ks {
        for act in [Act::Stop, Act::Error] {
            if k == positions && act == Act::Error {
                continue;
            }
            let token = idx * 1000 + k as u64;
            // every kind of error value at every position over the run; position and kind vary independently
            let pl = (idx as usize).wrapping_mul(7).wrapping_add(k * 5) % N_PAYLOADS;
            // one run in three: the answering callback first parses the same binary itself (re-entrancy)
            let nest = k != positions && (idx as usize + k) % 3 == 0;
            let mut c = Scripted { at: if k == positions { usize::MAX } else { k }, act, token, payload: pl, sent: None, log: vec![], insts: vec![], header: None, calls: 0, nest: if nest { Some(bytes.to_vec()) } else { None }, nested_log: None };
            let res = match catch(|| if via_words { rspirv::binary::parse_words(w, &mut c) } else { rspirv::binary::parse_bytes(bytes, &mut c) }) {
                Ok(x) => x,
                Err(p) => {
                    r.violation(format!("C14:panic:{}", crate::util::panic_key(&p)), format!("parser panicked: {}", p.msg), rp());
                    return;
                }
            };
            let fail = |r: &mut Report, rule: &str, msg: String| {
                r.violation(format!("C14:{}", rule), format!("{} [{}, {} entry point, answer {:?} (error value kind {}) at callback #{}]\nlog: {:?}", msg, ctx, if via_words { "parse_words" } else { "parse_bytes" }, act, pl, k, c.log), rp());
            };
            if nest {
                match &c.nested_log {
                    Some(l) if l.iter().map(|s| s.as_str()).collect::<Vec<_>>() == full => r.count("nested_parses_inside_callbacks", 1),
                    other => {
                        fail(r, "nested-parse", format!("a parse of the same binary started inside callback #{} made the callbacks {:?}, a parse on its own makes {:?}", k, other, full));
                        return;
                    }
                }
            }
            let want_log: Vec<&str> = if k == positions { full.to_vec() } else { full[..=k].to_vec() };
            if c.log != want_log {
                let rule = if c.log.len() > want_log.len() { "callback-after-end" } else if c.log.iter().filter(|s| *s == "finalize").count() > want_log.iter().filter(|s| **s == "finalize").count() { "finalize-unexpected" } else { "callback-order" };
                fail(r, rule, format!("callback log differs from the protocol prefix {:?}", want_log));
                return;
            }
            // delivered instructions equal the stream's, in order
            if let Some((want_dr, insts)) = want {
                for (i, got) in c.insts.iter().enumerate() {
                    if want_dr[i].as_ref() != Some(got) {
                        fail(r, "instruction-content", format!("instruction #{} delivered as {:?}, stream has {}", i + 1, got, insts[i].show()));
                        return;
                    }
                }
            }
            if let Some(h) = want_header {
                if c.header.as_ref().map(|h| (h.bound, h.version)) != if want_log.len() >= 2 { Some(h) } else { None } {
                    fail(r, "header-content", format!("header delivered as {:?}", c.header));
                    return;
                }
            }
            // result
            if k == positions {
                match (&res, has_parse_error) {
                    (Ok(()), false) => {}
                    (Err(e), true) if !matches!(e, ParseState::ConsumerStopRequested | ParseState::ConsumerError(_) | ParseState::Complete) => {}
                    (other, _) => {
                        fail(r, "result-all-continue", format!("result {:?}", other.as_ref().err()));
                        return;
                    }
                }
            } else {
                match (&res, act) {
                    (Err(ParseState::ConsumerStopRequested), Act::Stop) => {}
                    (Err(ParseState::ConsumerError(e)), Act::Error) => {
                        // the consumer's own error value: the very same boxed object (address, unless zero-sized) with the same content
                        let sent = c.sent.clone().unwrap_or((0, String::new()));
                        if thin(&**e) == sent.0 {
                            r.count("error_values_returned_in_the_same_box", 1);
                        }
                        let same_obj = format!("{:?}", e) == sent.1;
                        let tok_ok = if pl == 0 { matches!(e.downcast_ref::<Token>(), Some(t) if t.0 == token) } else { true };
                        if !same_obj || !tok_ok {
                            fail(r, "consumer-error-identity", format!("ConsumerError carries {:?}, the consumer answered {} (token {})", e, sent.1, token));
                            return;
                        }
                        r.seen("error_value_kinds_returned", format!("{:02}", pl));
                    }
                    (other, _) => {
                        fail(r, "result-after-action", format!("result {:?}", other.as_ref().map_err(crate::rs::state_name)));
                        return;
                    }
                }
            }
            let pos_class = if k == 0 { "initialize" } else if k == 1 { "header" } else if k == positions { "never" } else if full[k] == "finalize" { "finalize" } else { "inst" };
            r.nontrivial(format!("{}:{}:{:?}:{}", key, pos_class, act, via_words));
            r.evaluations += 1;
        }
    }
}

pub fn run(cfg: &Cfg, rep: &mut Report) {
    rep.rule = "binaries with N in 0..12 generated instructions, well-formed or with a parse error injected at instruction j; for EVERY callback position k in 0..N+2 (initialize, header, N instructions, finalize) and every action (stop, error carrying a unique token) a scripted consumer answers at k: the callback log must be exactly the protocol prefix ending at k, one run in three the answering callback first parses the same binary itself (re-entrancy: same callbacks as a parse on its own, the outer parse unaffected); delivered instructions must equal the stream's, the result must be ConsumerStopRequested / ConsumerError holding the consumer's own error value (16 kinds of error value: a private type, every kind of error the library defines itself incl. ParseState::Complete / ConsumerStopRequested, std errors; compared by content), finalize must be called iff the binary was parsed to the end without error; load_bytes must return a module only then. Injected parse errors: unknown opcode, zero word count, truncation, a module header where an instruction must start (concatenated modules). Stage `mutated`: modules of C03's generator under the 17 structured mutators, the first malformed instruction located by the reference parser (inputs it leaves unspecified are not judged), positions: all (<= 14 callbacks) or first/last/random. distinct_nontrivial = distinct (N, position class, action, error-injected) combinations".into();
    let n = cfg.n(8_000, 10_000_000);
    run_stage(cfg, rep, "protocol", n, |idx, rng, r| {
        let n_inst = (idx % 13) as usize;
        let insts = gen_insts(rng, n_inst);
        let mut w = gram::header(0x0001_0500, 7, 5000);
        let mut starts = vec![];
        for i in &insts {
            starts.push(w.len());
            w.extend(i.enc());
        }
        // optionally inject a parse error at instruction j (1-based): unknown opcode / zero word count / surplus word
        let embed = rng.chance(1, 8);
        let inject = !embed && n_inst > 0 && rng.chance(1, 2);
        let mut err_at: Option<usize> = None;
        if embed && db().by_opcode.get(&((crate::gram::MAGIC & 0xffff) as u16)).is_none() {
            // a module header where an instruction must start (concatenated modules): the magic number is
            // not an instruction, so instruction j+1 cannot be parsed, whatever follows it
            let j = rng.below(n_inst + 1);
            let at = if j < n_inst { starts[j] } else { w.len() };
            let hdr: Vec<u32> = match rng.below(6) {
                0 => vec![crate::gram::MAGIC],
                1 => vec![crate::gram::MAGIC, 0x0001_0500],
                2 => gram::header(0x0001_0000, 0, 0),
                3 => gram::header(0x0001_0600, rng.u32(), rng.u32()),
                4 => {
                    // a whole second module: header and the instructions generated so far
                    let mut h = gram::header(0x0001_0500, 7, 5000);
                    h.extend_from_slice(&w[5..]);
                    h
                }
                _ => w[..5].to_vec(),
            };
            let keep_rest = rng.chance(1, 2);
            let tail: Vec<u32> = if keep_rest { w[at..].to_vec() } else { vec![] };
            w.truncate(at);
            w.extend(hdr);
            w.extend(tail);
            err_at = Some(j + 1);
            r.count("embedded_module_headers", 1);
        }
        if inject {
            let j = rng.below(n_inst);
            err_at = Some(j + 1);
            let s = starts[j];
            match rng.below(3) {
                0 => w[s] = (w[s] & 0xffff_0000) | 0xfffe,
                1 => w[s] &= 0x0000_ffff,
                _ => {
                    // cut the stream inside instruction j (drop the rest)
                    let e = if j + 1 < n_inst { starts[j + 1] } else { w.len() };
                    if e - s > 1 {
                        w.truncate(e - 1);
                    } else {
                        w[s] = (w[s] & 0xffff_0000) | 0xfffe;
                    }
                }
            }
        }
        // optionally damage the header instead: initialize must still be the first (and only) callback
        let header_damage = !inject && err_at.is_none() && rng.chance(1, 5);
        if header_damage {
            match rng.below(3) {
                0 => w[0] = crate::gram::MAGIC.swap_bytes(),
                1 => w[0] = rng.u32() | 1,
                _ => w.truncate(rng.below(5)),
            }
            if w.first() == Some(&crate::gram::MAGIC) && w.len() >= 5 {
                w[0] ^= 0x10;
            }
            err_at = Some(0);
        }
        let bytes = words_to_bytes(&w);
        let via_words = rng.chance(1, 2);
        let delivered_max = err_at.map(|j| j.saturating_sub(1)).unwrap_or(n_inst);
        let want_dr: Vec<Option<dr::Instruction>> = insts.iter().map(|i| i.to_dr()).collect();
        let rp = || crate::util::replay_ref(cfg, "protocol", idx).set("binary", hex_bytes(&bytes));
        // full protocol log when the consumer always continues
        let mut full: Vec<&str> = if header_damage { vec!["initialize"] } else { vec!["initialize", "header"] };
        full.extend(std::iter::repeat("inst").take(delivered_max));
        if err_at.is_none() {
            full.push("finalize");
        }
        let ctx = format!("N={}, parse error at instruction {:?} (0 = header)", n_inst, err_at);
        let all: Vec<usize> = (0..=full.len()).collect();
        let key = format!("N{}:err{}", n_inst, if header_damage { "header" } else if err_at.is_some() { "inst" } else { "none" });
        check_protocol(r, &rp, &w, &bytes, via_words, &full, err_at.is_some(), Some((&want_dr, &insts)), Some((5000, 0x0001_0500)), &all, idx, &ctx, &key);
        // the loader, being such a consumer, yields a module only for binaries parsed to the end
        match catch(|| if via_words { rspirv::dr::load_words(&w) } else { rspirv::dr::load_bytes(&bytes) }) {
            Err(p) => r.violation(format!("C14:panic:{}", crate::util::panic_key(&p)), format!("load_bytes panicked: {}", p.msg), rp()),
            Ok(Ok(_)) if err_at.is_some() => r.violation("C14:loader-module-after-parse-error".to_string(), format!("load_bytes returned a module although instruction {:?} cannot be parsed", err_at), rp()),
            _ => {}
        }
        if idx < 2 {
            r.sample(Json::obj().set("N", n_inst).set("parse_error_at", err_at.map(|x| x as i64).unwrap_or(-1)).set("positions_tried", full.len() + 1).set("protocol", format!("{:?}", full)));
        }
    });
    // arbitrary mutated modules: where the first malformed instruction is (if any) is decided by the reference
    // parser of C03, the protocol demanded around it is the same
    let n2 = cfg.n(4_000, 3_000_000);
    run_stage(cfg, rep, "mutated", n2, |idx, rng, r| {
        use crate::mutate::{self, Base};
        use crate::refparse::{refparse, RefOutcome};
        let small = rng.chance(1, 2);
        let b = crate::mon::c03::gen_base(rng, vec![], small);
        let m = (idx % (mutate::N_MUTATORS as u64 + 1)) as usize;
        let (bytes, label) = if m == mutate::N_MUTATORS { (words_to_bytes(&b.words), "none".to_string()) } else { mutate::mutate(rng, &Base { words: &b.words, starts: &b.starts, insts: &b.insts }, m) };
        let reference = refparse(&bytes);
        if !reference.variadic_params.is_empty() {
            r.count("mutated_not_judged_variadic_parameter", 1);
            return;
        }
        let (n_delivered, err, hdr) = match &reference.outcome {
            RefOutcome::Unspecified { .. } => {
                r.count("mutated_not_judged_unspecified", 1);
                return;
            }
            RefOutcome::Accept if reference.trailing_bytes => {
                // whether 1..3 stray bytes behind the last instruction are a parse error is not specified; that
                // finalize and the result agree is: Ok <=> the log ends with the one finalize, a parse error
                // => no finalize at all
                let mut c = Scripted { at: usize::MAX, act: Act::Stop, token: idx, payload: 0, sent: None, log: vec![], insts: vec![], header: None, calls: 0, nest: None, nested_log: None };
                match catch(|| rspirv::binary::parse_bytes(&bytes, &mut c)) {
                    Err(p) => r.violation(format!("C14:panic:{}", crate::util::panic_key(&p)), format!("parser panicked: {}", p.msg), crate::util::replay_ref(cfg, "mutated", idx)),
                    Ok(res) => {
                        let finalized = c.log.iter().filter(|s| *s == "finalize").count();
                        let ends_finalized = c.log.last().map(|s| s == "finalize").unwrap_or(false);
                        let consistent = match &res {
                            Ok(()) => finalized == 1 && ends_finalized,
                            Err(_) => finalized == 0,
                        };
                        if !consistent {
                            r.violation("C14:finalize-vs-result".to_string(), format!("parse_bytes on a binary with stray trailing bytes ({}) returned {:?} after the callbacks {:?}", label, res.as_ref().err(), c.log), crate::util::replay_ref(cfg, "mutated", idx).set("binary", hex_bytes(&bytes)));
                        }
                        r.nontrivial(format!("trailing-bytes:{}", if res.is_ok() { "ok" } else { "err" }));
                    }
                }
                r.count("mutated_trailing_bytes_consistency_only", 1);
                return;
            }
            RefOutcome::Accept => (reference.insts.len(), false, true),
            RefOutcome::Reject(rj) => (rj.index.saturating_sub(1), true, rj.index > 0),
        };
        let mut full: Vec<&str> = if hdr { vec!["initialize", "header"] } else { vec!["initialize"] };
        full.extend(std::iter::repeat("inst").take(n_delivered));
        if !err {
            full.push("finalize");
        }
        let aligned = bytes.len() % 4 == 0;
        let via_words = aligned && rng.chance(1, 2);
        let w: Vec<u32> = if aligned { bytes.chunks(4).map(|c| u32::from_le_bytes([c[0], c[1], c[2], c[3]])).collect() } else { vec![] };
        let want_dr: Vec<Option<dr::Instruction>> = reference.insts.iter().map(|i| i.to_dr()).collect();
        let mut ks: Vec<usize> = if full.len() <= 14 {
            (0..=full.len()).collect()
        } else {
            let mut v = vec![0, 1, 2, full.len() - 3, full.len() - 2, full.len() - 1, full.len()];
            for _ in 0..5 {
                v.push(rng.below(full.len()));
            }
            v
        };
        ks.sort();
        ks.dedup();
        let rp = || crate::util::replay_ref(cfg, "mutated", idx).set("binary", hex_bytes(&bytes)).set("mutation", label.clone());
        let ctx = format!("mutation: {}; reference: {:?}", label, reference.outcome);
        let key = format!("mut{}:{}", m, match &reference.outcome { RefOutcome::Accept => "accept".to_string(), RefOutcome::Reject(rj) => format!("reject:{:?}", rj.classes.first()), _ => String::new() });
        let want_header = reference.header.map(|(_v, _g, bound)| bound);
        check_protocol(r, &rp, &w, &bytes, via_words, &full, err, Some((&want_dr, &reference.insts)), None, &ks, idx, &ctx, &key);
        let _ = want_header;
        match catch(|| rspirv::dr::load_bytes(&bytes)) {
            Err(p) => r.violation(format!("C14:panic:{}", crate::util::panic_key(&p)), format!("load_bytes panicked: {}", p.msg), rp()),
            Ok(Ok(_)) if err => r.violation("C14:loader-module-after-parse-error".to_string(), format!("load_bytes returned a module although the binary cannot be parsed to the end ({})", ctx), rp()),
            _ => {}
        }
        r.count("mutated_binaries_judged", 1);
    });
}
