//! C14 – the parser drives the consumer in protocol order and obeys its actions.

use crate::geninst::{Form, Gen};
use crate::gram::{self, db, AInst};
use crate::util::{catch, hex_bytes, run_stage, words_to_bytes, Cfg, Json, Report, Rng};
use rspirv::binary::{Consumer, ParseAction, ParseState};
use rspirv::dr;
use std::{error, fmt};

#[derive(Debug)]
struct Token(u64);
impl fmt::Display for Token {
    fn fmt(&self, f: &mut fmt::Formatter) -> fmt::Result {
        write!(f, "token {}", self.0)
    }
}
impl error::Error for Token {}

#[derive(Clone, Copy, Debug, PartialEq)]
enum Act {
    Continue,
    Stop,
    Error,
}

struct Scripted {
    /// callback position at which to answer `act` (0 = initialize, 1 = header, 2.. = instructions, last = finalize)
    at: usize,
    act: Act,
    token: u64,
    log: Vec<String>,
    insts: Vec<dr::Instruction>,
    header: Option<dr::ModuleHeader>,
    calls: usize,
}

impl Scripted {
    fn answer(&mut self, what: &str) -> ParseAction {
        self.log.push(what.to_string());
        let pos = self.calls;
        self.calls += 1;
        if pos == self.at {
            match self.act {
                Act::Continue => ParseAction::Continue,
                Act::Stop => ParseAction::Stop,
                Act::Error => ParseAction::Error(Box::new(Token(self.token))),
            }
        } else {
            ParseAction::Continue
        }
    }
}

impl Consumer for Scripted {
    fn initialize(&mut self) -> ParseAction {
        self.answer("initialize")
    }
    fn finalize(&mut self) -> ParseAction {
        self.answer("finalize")
    }
    fn consume_header(&mut self, h: dr::ModuleHeader) -> ParseAction {
        self.header = Some(h);
        self.answer("header")
    }
    fn consume_instruction(&mut self, i: dr::Instruction) -> ParseAction {
        self.insts.push(i);
        self.answer("inst")
    }
}

fn gen_insts(rng: &mut Rng, n: usize) -> Vec<AInst> {
    let d = db();
    let mut gen = Gen::new(100);
    let mut v = vec![];
    while v.len() < n {
        let ri = &d.insts[rng.below(d.insts.len())];
        if let Some(i) = gen.inst(rng, ri, Form::Random) {
            gen.observe(&i);
            v.push(i);
        }
    }
    v
}

pub fn run(cfg: &Cfg, rep: &mut Report) {
    rep.rule = "binaries with N in 0..12 generated instructions, well-formed or with a parse error injected at instruction j; for EVERY callback position k in 0..N+2 (initialize, header, N instructions, finalize) and every action (stop, error carrying a unique token) a scripted consumer answers at k: the callback log must be exactly the protocol prefix ending at k, delivered instructions must equal the stream's, the result must be ConsumerStopRequested / ConsumerError holding the consumer's own boxed token, finalize must be called iff the binary was parsed to the end without error; load_bytes must return a module only then. distinct_nontrivial = distinct (N, position class, action, error-injected) combinations".into();
    let n = cfg.n(8_000, 10_000_000);
    run_stage(cfg, rep, "protocol", n, |idx, rng, r| {
        let n_inst = (idx % 13) as usize;
        let insts = gen_insts(rng, n_inst);
        let mut w = gram::header(0x0001_0500, 7, 5000);
        let mut starts = vec![];
        for i in &insts {
            starts.push(w.len());
            w.extend(i.enc());
        }
        // optionally inject a parse error at instruction j (1-based): unknown opcode / zero word count / surplus word
        let inject = n_inst > 0 && rng.chance(1, 2);
        let mut err_at: Option<usize> = None;
        if inject {
            let j = rng.below(n_inst);
            err_at = Some(j + 1);
            let s = starts[j];
            match rng.below(3) {
                0 => w[s] = (w[s] & 0xffff_0000) | 0xfffe,
                1 => w[s] &= 0x0000_ffff,
                _ => {
                    // cut the stream inside instruction j (drop the rest)
                    let e = if j + 1 < n_inst { starts[j + 1] } else { w.len() };
                    if e - s > 1 {
                        w.truncate(e - 1);
                    } else {
                        w[s] = (w[s] & 0xffff_0000) | 0xfffe;
                    }
                }
            }
        }
        // optionally damage the header instead: initialize must still be the first (and only) callback
        let header_damage = !inject && rng.chance(1, 5);
        if header_damage {
            match rng.below(3) {
                0 => w[0] = crate::gram::MAGIC.swap_bytes(),
                1 => w[0] = rng.u32() | 1,
                _ => w.truncate(rng.below(5)),
            }
            if w.first() == Some(&crate::gram::MAGIC) && w.len() >= 5 {
                w[0] ^= 0x10;
            }
            err_at = Some(0);
        }
        let bytes = words_to_bytes(&w);
        let via_words = rng.chance(1, 2);
        let delivered_max = err_at.map(|j| j.saturating_sub(1)).unwrap_or(n_inst);
        let want_dr: Vec<Option<dr::Instruction>> = insts.iter().map(|i| i.to_dr()).collect();
        let rp = || crate::util::replay_ref(cfg, "protocol", idx).set("binary", hex_bytes(&bytes));
        // full protocol log when the consumer always continues
        let mut full: Vec<&str> = if header_damage { vec!["initialize"] } else { vec!["initialize", "header"] };
        full.extend(std::iter::repeat("inst").take(delivered_max));
        if err_at.is_none() {
            full.push("finalize");
        }
        let positions = full.len();
        // k == positions means "never answer anything but continue"
        for k in 0..=positions {
            for act in [Act::Stop, Act::Error] {
                if k == positions && act == Act::Error {
                    continue;
                }
                let token = idx * 1000 + k as u64;
                let mut c = Scripted { at: if k == positions { usize::MAX } else { k }, act, token, log: vec![], insts: vec![], header: None, calls: 0 };
                let res = match catch(|| if via_words { rspirv::binary::parse_words(&w, &mut c) } else { rspirv::binary::parse_bytes(&bytes, &mut c) }) {
                    Ok(x) => x,
                    Err(p) => {
                        r.violation(format!("C14:panic:{}", crate::util::panic_key(&p)), format!("parser panicked: {}", p.msg), rp());
                        return;
                    }
                };
                let fail = |r: &mut Report, rule: &str, msg: String| {
                    r.violation(format!("C14:{}", rule), format!("{} [N={}, {} entry point, answer {:?} at callback #{}, parse error at instruction {:?} (0 = header)]\nlog: {:?}", msg, n_inst, if via_words { "parse_words" } else { "parse_bytes" }, act, k, err_at, c.log), rp());
                };
                let want_log: Vec<&str> = if k == positions { full.clone() } else { full[..=k].to_vec() };
                if c.log != want_log {
                    let rule = if c.log.len() > want_log.len() { "callback-after-end" } else if c.log.iter().filter(|s| *s == "finalize").count() > want_log.iter().filter(|s| **s == "finalize").count() { "finalize-unexpected" } else { "callback-order" };
                    fail(r, rule, format!("callback log differs from the protocol prefix {:?}", want_log));
                    return;
                }
                // delivered instructions equal the stream's, in order
                for (i, got) in c.insts.iter().enumerate() {
                    if want_dr[i].as_ref() != Some(got) {
                        fail(r, "instruction-content", format!("instruction #{} delivered as {:?}, stream has {}", i + 1, got, insts[i].show()));
                        return;
                    }
                }
                if c.header.as_ref().map(|h| (h.bound, h.version)) != if want_log.len() >= 2 { Some((5000, 0x0001_0500)) } else { None } {
                    fail(r, "header-content", format!("header delivered as {:?}", c.header));
                    return;
                }
                // result
                if k == positions {
                    match (&res, err_at) {
                        (Ok(()), None) => {}
                        (Err(e), Some(_)) if !matches!(e, ParseState::ConsumerStopRequested | ParseState::ConsumerError(_) | ParseState::Complete) => {}
                        (other, _) => {
                            fail(r, "result-all-continue", format!("result {:?}", other.as_ref().err()));
                            return;
                        }
                    }
                } else {
                    match (&res, act) {
                        (Err(ParseState::ConsumerStopRequested), Act::Stop) => {}
                        (Err(ParseState::ConsumerError(e)), Act::Error) => match e.downcast_ref::<Token>() {
                            Some(t) if t.0 == token => {}
                            other => {
                                fail(r, "consumer-error-identity", format!("ConsumerError carries {:?}, the consumer answered token {}", other, token));
                                return;
                            }
                        },
                        (other, _) => {
                            fail(r, "result-after-action", format!("result {:?}", other.as_ref().map_err(crate::rs::state_name)));
                            return;
                        }
                    }
                }
                let pos_class = if k == 0 { "initialize" } else if k == 1 { "header" } else if k == positions { "never" } else if full[k] == "finalize" { "finalize" } else { "inst" };
                r.nontrivial(format!("N{}:{}:{:?}:err{}:{}", n_inst, pos_class, act, if header_damage { "header" } else if err_at.is_some() { "inst" } else { "none" }, via_words));
                r.evaluations += 1;
            }
        }
        // the loader, being such a consumer, yields a module only for binaries parsed to the end
        match catch(|| if via_words { rspirv::dr::load_words(&w) } else { rspirv::dr::load_bytes(&bytes) }) {
            Err(p) => r.violation(format!("C14:panic:{}", crate::util::panic_key(&p)), format!("load_bytes panicked: {}", p.msg), rp()),
            Ok(Ok(_)) if err_at.is_some() => r.violation("C14:loader-module-after-parse-error".to_string(), format!("load_bytes returned a module although instruction {:?} cannot be parsed", err_at), rp()),
            _ => {}
        }
        if idx < 2 {
            r.sample(Json::obj().set("N", n_inst).set("parse_error_at", err_at.map(|x| x as i64).unwrap_or(-1)).set("positions_tried", positions + 1).set("protocol", format!("{:?}", full)));
        }
    });
}
