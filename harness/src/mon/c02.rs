//! C02 – assemble and parse are exact inverses on grammar-conforming instructions.

use crate::generated::decls;
use crate::geninst::{supported_num_types, Form, Gen, LitStyle, STRING_POOL};
use crate::gram::{self, db, kind_name, AInst, AOp, K};
use crate::rs;
use crate::util::{catch, hex_words, run_stage, words_to_bytes, Cfg, Json, Report, Rng};
use rspirv::binary::{Assemble, Decoder};
use std::collections::HashMap;
use std::sync::OnceLock;

#[derive(Clone, Debug)]
pub struct Carrier {
    pub op: usize,
    pub pre: Vec<(K, u32)>,
}

/// kind -> opcodes (and forced parameter-carrying enumerants) through which a value of that kind
/// can appear in an instruction.
pub fn carriers() -> &'static HashMap<K, Vec<Carrier>> {
    static C: OnceLock<HashMap<K, Vec<Carrier>>> = OnceLock::new();
    C.get_or_init(|| {
        let d = db();
        let mut m: HashMap<K, Vec<Carrier>> = HashMap::new();
        for (i, ri) in d.insts.iter().enumerate() {
            for (k, _) in &ri.ops {
                if decls::kind_class(*k) < 2 {
                    let v = m.entry(*k).or_default();
                    if !v.iter().any(|c| c.op == i) {
                        v.push(Carrier { op: i, pre: vec![] });
                    }
                }
            }
        }
        let mut indirect: Vec<(K, Carrier)> = vec![];
        let mut keys: Vec<(&(K, u32), &Vec<(K, gram::Q)>)> = d.params.iter().collect();
        keys.sort_by_key(|((k, v), _)| (kind_name(*k), *v));
        for ((pk, pv), params) in keys {
            for (q, _) in params {
                if decls::kind_class(*q) < 2 {
                    if let Some(cs) = m.get(pk) {
                        for c in cs.iter().take(2) {
                            let mut pre = c.pre.clone();
                            pre.push((*pk, *pv));
                            indirect.push((*q, Carrier { op: c.op, pre }));
                        }
                    }
                }
            }
        }
        for (q, c) in indirect {
            m.entry(q).or_default().push(c);
        }
        m
    })
}

/// Context declarations: every supported numeric type, then one typed value per type (for OpSwitch).
pub fn context(gen: &mut Gen) -> Vec<AInst> {
    let mut ctx = vec![];
    for t in supported_num_types() {
        ctx.push(gen.type_decl(t));
    }
    let tys: Vec<u32> = gen.num_types.iter().map(|(id, _)| *id).collect();
    for t in tys {
        let id = gen.fresh();
        let i = AInst::named("Undef", Some(t), Some(id), vec![]);
        gen.observe(&i);
        ctx.push(i);
    }
    ctx
}

/// The heart of the monitor: reference encoding vs assemble, then parse back.
pub fn check_inst(x: &AInst, ctx: &[AInst], r: &mut Report, rp: &dyn Fn() -> Json, tag: &str) -> bool {
    let name = x.opname();
    let want = x.enc();
    let fail = |r: &mut Report, rule: &str, msg: String| {
        r.violation(format!("C02:{}:{}", rule, tag), format!("{}\ninstruction: {}\nreference words: {}", msg, x.show(), hex_words(&want)), rp().set("instruction", x.show()).set("words", hex_words(&want)));
        false
    };
    let di = match catch(|| x.to_dr()) {
        Ok(Some(d)) => d,
        Ok(None) => return fail(r, "unrepresentable", "a grammar-conforming instruction cannot be represented as dr::Instruction".into()),
        Err(p) => return fail(r, "panic-construct", format!("constructing the instruction panicked: {}", p.msg)),
    };
    let got = match catch(|| di.assemble()) {
        Ok(w) => w,
        Err(p) => return fail(r, "panic-assemble", format!("assemble() panicked: {} at {}", p.msg, p.loc)),
    };
    // assemble_into appends to whatever the vector already holds
    {
        let prefix = vec![0xAAAA_0001u32, 0x0002_0000 | x.opcode as u32, 7];
        let mut v = prefix.clone();
        if catch(|| di.assemble_into(&mut v)).is_err() || v.len() != prefix.len() + got.len() || v[..prefix.len()] != prefix[..] || v[prefix.len()..] != got[..] {
            return fail(r, "assemble_into-appends", format!("assemble_into on a non-empty vector gave {}", hex_words(&v)));
        }
    }
    if got != want {
        let rule = if got.first().map(|w| w >> 16) != Some(got.len() as u32) || got.first().map(|w| w & 0xffff) != Some(x.opcode as u32) { "assemble-first-word" } else { "assemble-words" };
        return fail(r, rule, format!("assemble() = {}", hex_words(&got)));
    }
    // parse header ++ context ++ words
    let mut w = gram::header_varied(want.iter().fold(want.len() as u64, |a, x| crate::util::mix(a ^ *x as u64)), 1_000_000);
    for c in ctx {
        w.extend(c.enc());
    }
    w.extend(&want);
    let p = match rs::parse_rec(&words_to_bytes(&w)) {
        Ok(p) => p,
        Err(p) => return fail(r, "panic-parse", format!("parser panicked: {} at {}", p.msg, p.loc)),
    };
    if let Err(e) = &p.result {
        return fail(r, "parse-rejects", format!("parser rejects the assembled words: {:?} ({} of {} instructions delivered)", e, p.rec.insts.len(), ctx.len() + 1));
    }
    if p.rec.insts.len() != ctx.len() + 1 {
        return fail(r, "parse-count", format!("parser delivered {} instructions for {}", p.rec.insts.len(), ctx.len() + 1));
    }
    let back = p.rec.insts.last().unwrap();
    if *back != di {
        return fail(r, "parse-differs", format!("parse(assemble(x)) = {}\n                     x = {}", rs::show_inst(back), rs::show_inst(&di)));
    }
    r.seen("opcodes", name);
    true
}

fn gen_with(rng: &mut Rng, op: usize, form: Form, forces: Vec<(K, u32)>, lit: LitStyle, s: Option<String>) -> Option<(Vec<AInst>, AInst, bool)> {
    let d = db();
    let mut gen = Gen::with_id_policy(rng);
    gen.lit = lit;
    let ctx = context(&mut gen);
    gen.forces = forces;
    gen.force_string = s;
    let x = gen.inst(rng, &d.insts[op], form)?;
    let all_used = gen.forces.is_empty() && gen.force_string.is_none();
    Some((ctx, x, all_used))
}

pub fn run(cfg: &Cfg, rep: &mut Report) {
    rep.rule = "grammar-conforming instructions generated from the frozen grammar: (A) each of the 787 opcodes in minimal, maximal and random form, (B) every enumerant of every value enum forced through an opcode (or parameter) that carries the kind, else at operand level through Operand::assemble + the typed Decoder request, (C) every single bit / all bits / random subsets of every mask with their parameters, (D) every pool string (lengths 0..9 incl. multi-byte) at a LiteralString position of every opcode that has one, (E) every literal width for OpConstant/OpSpecConstant/OpSwitch, (F) random fill incl. nested OpSpecConstantOp, (G) OpExtInst after an OpExtInstImport of every known / near-miss set name x every number of the sets' tables x 0..5 id operands; each instruction: assemble() == reference encoding word for word, parse(header ++ type context ++ words) delivers an equal instruction. distinct_nontrivial = distinct (opcode, operand-kind-shape) pairs checked".into();
    rep.assumptions.push("grammar = frozen reference table and parameter lists (stand-in for the Khronos grammar of SDK 1.4.309.0)".into());
    let d = db();
    let n_ops = d.insts.len() as u64;

    // ---- (A) every opcode x {min, max, random x2}
    run_stage(cfg, rep, "opcodes", n_ops * 4, |idx, rng, r| {
        let op = (idx / 4) as usize;
        let form = [Form::Min, Form::Max, Form::Random, Form::Random][(idx % 4) as usize];
        let lit = if idx % 4 == 3 { LitStyle::Random } else { LitStyle::Marker };
        let rp = || crate::util::replay_ref(cfg, "opcodes", idx);
        match gen_with(rng, op, form, vec![], lit, None) {
            None => r.count("ungenerable", 1),
            Some((ctx, x, _)) => {
                let name = &d.insts[op].opname;
                if check_inst(&x, &ctx, r, &rp, name) {
                    r.nontrivial(format!("{}:{}", name, x.ops.iter().map(|o| kind_name(o.kind).chars().next().unwrap_or('?')).collect::<String>()));
                }
                if op == 61 && idx % 4 == 1 {
                    r.sample(Json::obj().set("instruction", x.show()).set("words", hex_words(&x.enc())));
                }
            }
        }
    });

    // ---- (B) every enumerant, (C) every mask bit / combination
    let mut vals: Vec<(K, u32)> = vec![];
    for (_, k) in decls::OPERAND_KINDS {
        match decls::kind_class(*k) {
            0 => vals.extend(d.enum_values(*k).iter().map(|(_, v)| (*k, *v))),
            1 => {
                vals.push((*k, 0));
                vals.extend(d.mask_bits(*k).iter().map(|b| (*k, *b)));
                vals.push((*k, d.mask_all(*k)));
                let mut rng = Rng::new(cfg.seed ^ 0xC02);
                let bits = d.mask_bits(*k);
                for _ in 0..cfg.n(8, 64) {
                    vals.push((*k, bits.iter().filter(|_| rng.chance(1, 2)).fold(0, |a, b| a | b)));
                }
            }
            _ => {}
        }
    }
    let vals_ref = &vals;
    run_stage(cfg, rep, "enumerants", vals.len() as u64, |idx, rng, r| {
        let (k, v) = vals_ref[idx as usize];
        let rp = || crate::util::replay_ref(cfg, "enumerants", idx).set("kind", kind_name(k)).set("value", v);
        let tag = format!("{}={}", kind_name(k), if decls::kind_class(k) == 1 && v.count_ones() > 1 { "combination".to_string() } else { v.to_string() });
        let mut done = false;
        if let Some(cs) = carriers().get(&k) {
            for attempt in 0..cs.len().min(6) {
                let c = &cs[(idx as usize + attempt) % cs.len()];
                let mut forces = c.pre.clone();
                forces.push((k, v));
                if let Some((ctx, x, used)) = gen_with(rng, c.op, Form::Max, forces, LitStyle::Marker, None) {
                    if used {
                        if check_inst(&x, &ctx, r, &rp, &tag) {
                            r.nontrivial(format!("value:{}:{}", kind_name(k), v));
                        }
                        r.count("enumerants_through_opcodes", 1);
                        done = true;
                        break;
                    }
                }
            }
        }
        // operand level (always; the only route for kinds no opcode carries)
        match decls::mk_enum_operand(k, v) {
            None => r.violation(format!("C02:unrepresentable:{}", tag), format!("{} value {} cannot be represented", kind_name(k), v), rp()),
            Some(o) => {
                let w = o.assemble();
                if w != vec![v] {
                    r.violation(format!("C02:operand-assemble:{}", tag), format!("{:?}.assemble() = {:x?}, expected [{:#x}]", o, w, v), rp());
                }
                if let Some((_, _, f)) = decls::DECODER_REQUESTS.iter().find(|(_, ty, _)| *ty == kind_name(k)) {
                    let bytes = words_to_bytes(&[v]);
                    let mut dec = Decoder::new(&bytes);
                    match f(&mut dec) {
                        Ok(x) if x == v => {}
                        other => r.violation(format!("C02:operand-decode:{}", tag), format!("typed decoder request for {} on word {} returned {:?}", kind_name(k), v, other), rp()),
                    }
                }
                if !done {
                    r.count("enumerants_operand_level_only", 1);
                    r.nontrivial(format!("value:{}:{}", kind_name(k), v));
                }
            }
        }
    });

    // ---- (D) strings at every LiteralString position
    let string_ops: Vec<usize> = d.insts.iter().enumerate().filter(|(_, ri)| ri.ops.iter().any(|(k, _)| *k == K::LiteralString)).map(|(i, _)| i).collect();
    let n_str = (string_ops.len() * STRING_POOL.len()) as u64;
    let string_ops_ref = &string_ops;
    run_stage(cfg, rep, "strings", n_str, |idx, rng, r| {
        let op = string_ops_ref[idx as usize / STRING_POOL.len()];
        let s = STRING_POOL[idx as usize % STRING_POOL.len()];
        let rp = || crate::util::replay_ref(cfg, "strings", idx);
        if let Some((ctx, x, _)) = gen_with(rng, op, Form::Max, vec![], LitStyle::Marker, Some(s.to_string())) {
            if check_inst(&x, &ctx, r, &rp, &format!("string-len-{}", s.len())) {
                r.nontrivial(format!("string:{}:{}", d.insts[op].opname, s.len() % 4));
            }
        }
    });
    // decoration / execution-mode parameters that are strings
    run_stage(cfg, rep, "param-strings", STRING_POOL.len() as u64 * 4, |idx, rng, r| {
        let s = STRING_POOL[idx as usize % STRING_POOL.len()];
        let rp = || crate::util::replay_ref(cfg, "param-strings", idx);
        let dec = [41u32, 5635, 5636, 5826][(idx as usize / STRING_POOL.len()) % 4]; // LinkageAttributes, UserSemantic(HlslSemanticGOOGLE), UserTypeGOOGLE, MemoryINTEL
        if !d.enum_declared(K::Decoration, dec) {
            return;
        }
        let op = *d.by_name.get("Decorate").unwrap();
        if let Some((ctx, x, _)) = gen_with(rng, op, Form::Max, vec![(K::Decoration, dec)], LitStyle::Marker, Some(s.to_string())) {
            check_inst(&x, &ctx, r, &rp, &format!("decoration-{}-string", dec));
        }
    });

    // ---- (E) literal widths: Constant / SpecConstant / Switch against every numeric type
    let n_types = supported_num_types().len() as u64;
    run_stage(cfg, rep, "literal-widths", n_types * 3 * 8, |idx, rng, r| {
        let ti = (idx % n_types) as usize;
        let which = ((idx / n_types) % 3) as usize;
        let rp = || crate::util::replay_ref(cfg, "literal-widths", idx);
        let mut gen = Gen::new(1000);
        gen.lit = if idx % 2 == 0 { LitStyle::Marker } else { LitStyle::Random };
        let ctx = context(&mut gen);
        let (tid, ty) = gen.num_types[ti];
        let value_of_type = gen.typed_values.iter().find(|(_, t)| *t == ty).map(|(id, _)| *id).unwrap();
        let mut mk_lit = |gen: &mut Gen, rng: &mut Rng, t: u32| -> crate::gram::AVal {
            match gen.types.width(t) {
                crate::model::Width::Two => crate::gram::AVal::W64(((rng.word() as u64) << 32) | rng.word() as u64),
                _ => crate::gram::AVal::W(rng.word()),
            }
        };
        let x = match which {
            0 | 1 => {
                let v = mk_lit(&mut gen, rng, tid);
                AInst::named(if which == 0 { "Constant" } else { "SpecConstant" }, Some(tid), Some(gen.fresh()), vec![AOp { kind: K::LiteralContextDependentNumber, val: v }])
            }
            _ => {
                let mut ops = vec![AOp::id(value_of_type), AOp::id(gen.fresh())];
                for _ in 0..rng.below(5) {
                    let v = mk_lit(&mut gen, rng, value_of_type);
                    ops.push(AOp { kind: K::LiteralContextDependentNumber, val: v });
                    ops.push(AOp::id(gen.fresh()));
                }
                AInst::named("Switch", None, None, ops)
            }
        };
        if check_inst(&x, &ctx, r, &rp, &format!("{}-{:?}", ["Constant", "SpecConstant", "Switch"][which], ty)) {
            r.nontrivial(format!("width:{}:{:?}", which, ty));
        }
    });

    // ---- boundary sizes: instructions at the maximum word count, 64 KiB strings, many operands
    run_stage(cfg, rep, "scale", cfg.n(24, 400), |idx, rng, r| {
        let variant = [3u64, 3, 4, 1, 7, 7][(idx % 6) as usize];
        let (label, insts) = crate::scale::scale_module(rng, variant);
        let rp = || crate::util::replay_ref(cfg, "scale", idx).set("label", label.clone());
        // context = every instruction before; the big instructions and the literal consumers are checked
        // individually (with the whole preceding stream as context)
        let mut ctx: Vec<AInst> = vec![];
        let n_insts = insts.len();
        for (pos, x) in insts.into_iter().enumerate() {
            let consumer = matches!(x.opname().as_str(), "Switch" | "Constant" | "SpecConstant") && (variant == 7 || pos + 12 > n_insts);
            if x.enc().len() > 64 || consumer {
                let mut with_ctx = ctx.clone();
                with_ctx.push(x.clone());
                ctx = with_ctx;
                let (c, _) = ctx.split_at(ctx.len() - 1);
                if check_inst(&x, c, r, &rp, &format!("scale-{}", x.opname())) {
                    r.nontrivial(format!("scale:{}:{}", x.opname(), x.enc().len()));
                }
            } else {
                ctx.push(x);
            }
        }
    });
    // ---- extended instructions in context: OpExtInst whose set operand names an earlier OpExtInstImport of
    //      every known / near-miss set name, every instruction number of the sets' tables (plus edge numbers),
    //      0..5 id operands: by the grammar the operands after the number are ids, whatever the set says
    {
        let names = crate::scale::IMPORT_NAMES;
        let mut nums: Vec<u32> = d.glsl.iter().map(|e| e.opcode).chain(d.cl.iter().map(|e| e.opcode)).collect();
        nums.extend([0u32, 1, 82, 163, 255, 256, 65_535, 65_536, u32::MAX]);
        nums.sort();
        nums.dedup();
        let nums = &nums;
        run_stage(cfg, rep, "ext-inst-context", (names.len() * nums.len()) as u64 * cfg.n(2, 24), |idx, rng, r| {
            let name = names[(idx % names.len() as u64) as usize];
            let num = nums[((idx / names.len() as u64) % nums.len() as u64) as usize];
            let rp = || crate::util::replay_ref(cfg, "ext-inst-context", idx).set("set", name).set("number", num);
            let mut gen = Gen::with_id_policy(rng);
            let mut ctx = context(&mut gen);
            let set = gen.fresh();
            if rng.chance(1, 3) {
                let other = gen.fresh();
                ctx.push(AInst::named("ExtInstImport", None, Some(other), vec![AOp::s(*rng.pick(names))]));
            }
            ctx.push(AInst::named("ExtInstImport", None, Some(set), vec![AOp::s(name)]));
            let mut ops = vec![AOp::id(set), AOp::w(K::LiteralExtInstInteger, num)];
            for _ in 0..rng.below(6) {
                let v = if rng.chance(1, 2) { rng.below(8) as u32 } else { gen.fresh() };
                ops.push(AOp::id(v));
            }
            let (t, rid) = (gen.fresh(), gen.fresh());
            let x = AInst::named("ExtInst", Some(t), Some(rid), ops);
            if check_inst(&x, &ctx, r, &rp, &format!("ExtInst-after-import-{}", name.trim())) {
                r.nontrivial(format!("extinst:{}:{}", name, num));
            }
        });
    }
    // ---- (F) random fill
    let n = cfg.n(150_000, 50_000_000);
    run_stage(cfg, rep, "random", n, |idx, rng, r| {
        let op = if rng.chance(1, 12) { *d.by_name.get("SpecConstantOp").unwrap() } else { rng.below(d.insts.len()) };
        let rp = || crate::util::replay_ref(cfg, "random", idx);
        let lit = if rng.chance(1, 2) { LitStyle::Random } else { LitStyle::Marker };
        if let Some((ctx, x, _)) = gen_with(rng, op, Form::Random, vec![], lit, None) {
            let name = d.insts[op].opname.clone();
            let tag = if name == "SpecConstantOp" { format!("SpecConstantOp-{}", x.ops.first().and_then(|o| o.word()).and_then(|n| d.lookup(n as u16)).map(|r| r.opname.clone()).unwrap_or_default()) } else { name };
            check_inst(&x, &ctx, r, &rp, &tag);
        }
    });
    let seen = rep.sets.get("opcodes").map(|s| s.len()).unwrap_or(0);
    rep.extra.push(("x_opcode_coverage".into(), Json::obj().set("opcodes_round_tripped", seen).set("opcodes_in_grammar", d.insts.len())));
    rep.extra.push(("x_values_total".into(), Json::from(vals.len())));
}
