//! C07 – disassembly is a complete, unambiguous rendering of the instruction stream.

use crate::geninst::{Form, Gen, LitStyle};
use crate::genmod::{self, ModOpts};
use crate::gram::{db, AInst, AOp, AVal, K};
use crate::model::NumTy;
use crate::textread::{read_header, Reader, GENERATORS};
use crate::util::{catch, hex_words, run_stage, Cfg, Json, Report, Rng};
use rspirv::binary::{Assemble, Disassemble};
use rspirv::dr;

fn split_words(words: &[u32]) -> Option<Vec<&[u32]>> {
    let mut p = 0;
    let mut out = vec![];
    while p < words.len() {
        let wc = (words[p] >> 16) as usize;
        if wc == 0 || p + wc > words.len() {
            return None;
        }
        out.push(&words[p..p + wc]);
        p += wc;
    }
    Some(out)
}

fn is_nan_literal(inst: &AInst, reader_ty: Option<NumTy>) -> bool {
    match (reader_ty, inst.ops.first().map(|o| &o.val)) {
        (Some(NumTy::Float(_)), Some(AVal::W(w))) => f32::from_bits(*w).is_nan(),
        (Some(NumTy::Float(_)), Some(AVal::W64(w))) => f64::from_bits(*w).is_nan(),
        _ => false,
    }
}

pub fn check_module(m: &dr::Module, origin: &str, r: &mut Report, rp: &dyn Fn() -> Json) -> bool {
    let words = match catch(|| m.assemble()) {
        Ok(w) => w,
        Err(_) => return false,
    };
    let text = match catch(|| m.disassemble()) {
        Ok(t) => t,
        Err(p) => {
            r.violation(format!("C07:panic:{}", crate::util::panic_key(&p)), format!("disassemble() panicked: {} at {}", p.msg, p.loc), rp().set("words", hex_words(&words)));
            return false;
        }
    };
    let fail = |r: &mut Report, rule: String, msg: String| {
        r.violation(format!("C07:{}", rule), format!("[{} module] {}", origin, msg), rp().set("words", hex_words(&words)).set("text", text.chars().take(4000).collect::<String>()));
    };
    let lines: Vec<&str> = text.split('\n').collect();
    let mut body = &lines[..];
    let mut body_words = &words[..];
    if let Some(h) = &m.header {
        let ht = match read_header(&lines) {
            Ok(h) => h,
            Err(e) => {
                fail(r, "header-format".into(), format!("header comment unreadable: {}\nfirst lines: {:?}", e, &lines[..lines.len().min(4)]));
                return false;
            }
        };
        let (ma, mi) = ((h.version >> 16) & 0xff, (h.version >> 8) & 0xff);
        let tool = (h.generator >> 16) as usize;
        let want_gen = GENERATORS.get(tool).copied().unwrap_or("Unknown");
        if ht.major != ma || ht.minor != mi {
            fail(r, "header-version".into(), format!("header says version {}.{}, the version word {:#x} is {}.{}", ht.major, ht.minor, h.version, ma, mi));
            return false;
        }
        if ht.generator != want_gen {
            fail(r, "header-generator".into(), format!("header names generator {:?}, tool id {} is {:?}", ht.generator, tool, want_gen));
            return false;
        }
        if ht.bound != h.bound {
            fail(r, "header-bound".into(), format!("header says bound {}, module has {}", ht.bound, h.bound));
            return false;
        }
        body = &lines[4..];
        body_words = &words[5..];
    }
    let insts = match split_words(body_words) {
        Some(i) => i,
        None => return false,
    };
    // an empty module body renders as no line at all
    let body: Vec<&str> = if insts.is_empty() && body.len() == 1 && body[0].is_empty() { vec![] } else { body.to_vec() };
    if body.len() != insts.len() {
        fail(r, "line-count".into(), format!("{} instruction line(s) for {} assembled instruction(s)", body.len(), insts.len()));
        return false;
    }
    let d = db();
    let mut reader = Reader::new();
    reader.prescan(&body);
    for (i, (line, want)) in body.iter().zip(insts.iter()).enumerate() {
        let opname = d.lookup((want[0] & 0xffff) as u16).map(|x| x.opname.clone()).unwrap_or_default();
        let type_before = want.get(1).and_then(|t| reader.global_types.get(t).copied().or(reader.types.get(*t)));
        let inst = match reader.line(line) {
            Ok(x) => x,
            Err(e) => {
                // name the operand kind involved for a stable signature
                let kind = e.split(" of a ").nth(1).map(|s| s.split(' ').next().unwrap_or("").to_string()).unwrap_or_default();
                fail(r, format!("unreadable:{}:{}", opname, kind), format!("line {} cannot be read back with the specification vocabulary: {}\nline: {}\nwords: {}", i + 1, e, line, hex_words(want)));
                return false;
            }
        };
        // extended-instruction numbers are shown by name when the set is GLSL.std.450 / OpenCL.std and
        // the number belongs to the set; otherwise as a number
        if opname == "ExtInst" {
            if let (Some(set), Some(num)) = (inst.ops.first().and_then(|o| o.word()), inst.ops.get(1).and_then(|o| o.word())) {
                let table = match reader.imports.get(&set).map(|s| s.as_str()) {
                    Some("GLSL.std.450") => Some(&d.glsl),
                    Some("OpenCL.std") => Some(&d.cl),
                    _ => None,
                };
                let known = table.map(|t| t.iter().any(|e| e.opcode == num)).unwrap_or(false);
                if reader.last_ext_symbolic.get() != Some(known) {
                    fail(r, format!("extinst-name:{}", if known { "number-for-known-instruction" } else { "name-for-unknown-instruction" }), format!("line {}: instruction number {} of set %{} ({:?}) is {}shown by name although it {} to the imported set\nline: {}", i + 1, num, set, reader.imports.get(&set), if known { "not " } else { "" }, if known { "belongs" } else { "does not belong" }, line));
                    return false;
                }
                if known {
                    r.count("ext_inst_names_checked", 1);
                }
            }
        }
        let got = inst.enc();
        if got.as_slice() != *want {
            if (opname == "Constant") && is_nan_literal(&inst, type_before) {
                r.count("nan_literals_excepted", 1);
                continue;
            }
            fail(r, format!("reconstruction:{}", opname), format!("line {} reads back to different words\nline: {}\nread:  {}\nwords: {}", i + 1, line, hex_words(&got), hex_words(want)));
            return false;
        }
        r.seen("opcodes_read_back", opname);
        r.count("lines_read_back", 1);
    }
    true
}

fn float_specials(rng: &mut Rng, ty: NumTy) -> Option<AVal> {
    Some(match ty {
        NumTy::Float(64) => AVal::W64(*rng.pick(&[0u64, 0x8000_0000_0000_0000, 0x7ff0_0000_0000_0000, 0xfff0_0000_0000_0000, 1, 0x3ff0_0000_0000_0000, 0x7fef_ffff_ffff_ffff, 0x7ff8_0000_0000_0001, 0x4005_bf0a_8b14_5769])),
        NumTy::Float(_) => AVal::W(*rng.pick(&[0u32, 0x8000_0000, 0x7f80_0000, 0xff80_0000, 1, 0x3f80_0000, 0x7f7f_ffff, 0x7fc0_0001, 0x3c00, 0x0000_7bff, 0xc2f6_e979])),
        NumTy::Int(64, _) => AVal::W64(*rng.pick(&[0u64, u64::MAX, 0x8000_0000_0000_0000, 0x7fff_ffff_ffff_ffff, 1 << 32])),
        NumTy::Int(_, _) => AVal::W(*rng.pick(&[0u32, u32::MAX, 0x8000_0000, 0x7fff_ffff, 0xffff, 0x8000, 0xff, 0x80])),
    })
}

pub fn run(cfg: &Cfg, rep: &mut Report) {
    rep.rule = "modules produced by the loader (layout-ordered generator output: every opcode over the run, every enum kind and mask reachable through opcodes, GLSL.std.450 / OpenCL.std / unknown imports with in- and out-of-table OpExtInst numbers, constants of every numeric type incl. negative, huge, +-0.0, +-inf, subnormal, 8/16-bit, NaN) and by the Builder (complete histories of the C06 generator): the disassembly's header comment is compared with the header fields (16 registered generator names), the number of lines with the number of assembled instructions, and every line is read back by an independent reader (specification vocabulary only) and re-encoded by the reference encoder; the words must equal assemble() exactly (NaN literals excepted). distinct_nontrivial = distinct (opcode, origin) pairs read back".into();
    rep.assumptions.push("vocabulary = frozen reference names; modules are in logical-layout order; a module-scope constant may precede the declaration of its numeric type (it is then one word wide and rendered by the declared type)".into());
    let d = db();
    let n_ops = d.insts.len() as u64;
    let n = cfg.n(n_ops * 10, n_ops * 2500);
    run_stage(cfg, rep, "loader-modules", n, |idx, rng, r| {
        let must = (idx % n_ops) as usize;
        let mut gen = Gen::with_id_policy(rng);
        gen.lit = if rng.chance(2, 3) { LitStyle::Random } else { LitStyle::Marker };
        let import_ids = [gen.fresh(), gen.fresh(), gen.fresh()];
        let o = ModOpts { max_functions: 2, max_blocks: 2, max_block_insts: 4, max_per_section: 2, layout_order: true, must: vec![must, *d.by_name.get("ExtInst").unwrap()], memory_model: true };
        let sk = genmod::skeleton(rng, &o);
        let mut insts = genmod::instantiate(rng, &mut gen, &sk, Form::Random);
        // imports first, and OpExtInst instructions pointed at them
        let imports = [(import_ids[0], "GLSL.std.450"), (import_ids[1], "OpenCL.std"), (import_ids[2], "NonSemantic.Other")];
        for i in insts.iter_mut() {
            if i.opname() == "ExtInst" && i.ops.len() >= 2 {
                let (set, name) = *rng.pick(&imports);
                let table = if name == "GLSL.std.450" { &d.glsl } else { &d.cl };
                let num = match rng.below(6) {
                    0 => rng.below(300) as u32,
                    1 => rng.u32(),
                    2 => *rng.pick(&[0u32, 1, 81, 82, 83, 162, 163, 204, 205, u32::MAX]),
                    _ => table[rng.below(table.len())].opcode,
                };
                i.ops[0] = AOp::id(if rng.chance(1, 8) { gen.fresh() } else { set });
                i.ops[1] = AOp::w(K::LiteralExtInstInteger, num);
            }
        }
        let mut pre: Vec<AInst> = imports.iter().map(|(id, name)| AInst::named("ExtInstImport", None, Some(*id), vec![AOp::s(name)])).collect();
        // constants with special values for every declared numeric type (after the declarations)
        let specials: Vec<AInst> = gen.num_types.clone().iter().filter_map(|(tid, ty)| {
            if !matches!(gen.types.width(*tid), crate::model::Width::One | crate::model::Width::Two) {
                return None;
            }
            let v = float_specials(rng, *ty)?;
            Some(AInst::named("Constant", Some(*tid), Some(gen.fresh()), vec![AOp { kind: K::LiteralContextDependentNumber, val: v }]))
        }).collect();
        // place specials right after the last numeric type declaration
        let last_ty = insts.iter().rposition(|i| matches!(i.opname().as_str(), "TypeInt" | "TypeFloat")).map(|p| p + 1).unwrap_or(0);
        for (k, s) in specials.into_iter().enumerate() {
            insts.insert(last_ty + k, s);
        }
        // sometimes a constant whose numeric type is declared only LATER in the module-scope part: it is
        // parsed as one word, and must still be rendered according to the declared type
        if rng.chance(1, 4) {
            let first_ty = insts.iter().position(|i| matches!(i.opname().as_str(), "TypeInt" | "TypeFloat")).unwrap_or(0);
            let t = gen.fresh();
            let c = gen.fresh();
            let ty = *rng.pick(&[NumTy::Int(32, true), NumTy::Int(64, true), NumTy::Int(16, true), NumTy::Int(32, false), NumTy::Float(32), NumTy::Float(64), NumTy::Int(48, true), NumTy::Float(16)]);
            let word = *rng.pick(&[0x8000_0000u32, u32::MAX, 0x3f80_0000, 0xffff, 1, 0xc2f6_e979]);
            insts.insert(first_ty, AInst::named("Constant", Some(t), Some(c), vec![AOp { kind: K::LiteralContextDependentNumber, val: AVal::W(word) }]));
            let decl = match ty {
                NumTy::Int(w, s) => AInst::named("TypeInt", None, Some(t), vec![AOp::lit(w), AOp::lit(s as u32)]),
                NumTy::Float(w) => AInst::named("TypeFloat", None, Some(t), vec![AOp::lit(w)]),
            };
            let after = insts.iter().rposition(|i| matches!(i.opname().as_str(), "TypeInt" | "TypeFloat" | "Constant")).map(|p| p + 1).unwrap_or(insts.len());
            insts.insert(after, decl);
        }
        pre.extend(insts);
        let generator = match rng.below(4) {
            0 => rng.u32(),
            _ => ((rng.below(20) as u32) << 16) | rng.below(0x10000) as u32,
        };
        // the bound word is whatever the producer wrote: usually above every id, sometimes stale (too small, zero)
        // or far too large; the header comment shows the recorded word, and nothing else may depend on it
        let bound = match rng.below(6) {
            0 => rng.below(gen.next_id.max(1) as usize) as u32,
            1 => *rng.pick(&[0u32, 1, 2, u32::MAX]),
            2 => rng.u32(),
            _ => gen.next_id,
        };
        let (words, _mask, _starts) = genmod::encode_module(genmod::random_version(rng), generator, bound, &pre, None);
        let rp = || crate::util::replay_ref(cfg, "loader-modules", idx);
        match catch(|| dr::load_words(&words)) {
            Ok(Ok(mut m)) => {
                // the parser does not keep the generator word (a loaded module always names rspirv itself): give the
                // module value the input's generator, so that all registered tool names and unknown ids are rendered
                if let Some(h) = m.header.as_mut() {
                    if idx % 4 != 3 {
                        h.generator = generator;
                    }
                    r.seen("generator_tools_rendered", format!("{:02}", (h.generator >> 16).min(99)));
                }
                if idx < 1 {
                    let t = m.disassemble();
                    r.sample(Json::obj().set("origin", "loader").set("disassembly_head", t.lines().take(12).map(Json::from).collect::<Vec<_>>()));
                }
                if check_module(&m, "loader", r, &rp) {
                    r.nontrivial(format!("loader:{}", d.insts[must].opname));
                }
            }
            _ => r.count("not_loaded", 1),
        }
    });
    run_stage(cfg, rep, "scale", cfg.n(crate::scale::N_VARIANTS * 12, crate::scale::N_VARIANTS * 300), |idx, rng, r| {
        let (label, insts) = crate::scale::scale_module(rng, idx % crate::scale::N_VARIANTS);
        let (words, _m, _s) = genmod::encode_module(0x0001_0600, 0, 1 << 22, &insts, None);
        let rp = || crate::util::replay_ref(cfg, "scale", idx).set("label", label.clone());
        if let Ok(Ok(m)) = catch(|| dr::load_words(&words)) {
            if check_module(&m, "scale", r, &rp) {
                r.nontrivial(format!("scale:{}", label));
            }
        }
    });
    // operand level: every enumerant of every value enum and every single bit / all bits / random
    // subsets of every mask must be rendered by its specification name (covers the kinds no opcode
    // of the workload carries)
    let mut vals: Vec<(K, u32)> = vec![];
    for (_, k) in crate::generated::decls::OPERAND_KINDS {
        match crate::generated::decls::kind_class(*k) {
            0 => vals.extend(d.enum_values(*k).iter().map(|(_, v)| (*k, *v))),
            1 => {
                vals.push((*k, 0));
                vals.extend(d.mask_bits(*k).iter().map(|b| (*k, *b)));
                vals.push((*k, d.mask_all(*k)));
                let mut rng = Rng::new(cfg.seed ^ 0xC07);
                let bits = d.mask_bits(*k);
                for _ in 0..16 {
                    vals.push((*k, bits.iter().filter(|_| rng.chance(1, 2)).fold(0, |a, b| a | b)));
                }
            }
            _ => {}
        }
    }
    let vals_ref = &vals;
    run_stage(cfg, rep, "operand-names", vals.len() as u64, |idx, _rng, r| {
        let (k, v) = vals_ref[idx as usize];
        let rp = || crate::util::replay_ref(cfg, "operand-names", idx);
        let o = match crate::generated::decls::mk_enum_operand(k, v) {
            Some(o) => o,
            None => return,
        };
        let text = match catch(|| o.disassemble()) {
            Ok(t) => t,
            Err(p) => {
                r.violation(format!("C07:panic:{}", crate::util::panic_key(&p)), p.msg, rp());
                return;
            }
        };
        let back = crate::textread::value_by_name(k, &text);
        if back != Ok(v) {
            r.violation(format!("C07:operand-name:{}", crate::gram::kind_name(k)), format!("{} value {:#x} is rendered {:?}, which reads back as {:?}", crate::gram::kind_name(k), v, text, back), rp());
        } else {
            r.nontrivial(format!("name:{}:{}", crate::gram::kind_name(k), v));
        }
    });
    let n = cfg.n(6_000, 1_500_000);
    run_stage(cfg, rep, "builder-modules", n, |idx, rng, r| {
        let rp = || crate::util::replay_ref(cfg, "builder-modules", idx);
        let mut scratch = Report::new("C06");
        let sems_len = crate::bmodel::method_sems().len();
        if let Some((m, log, _)) = crate::mon::c06::history(rng, &mut scratch, &rp, (idx as usize) % sems_len) {
            // only histories that C06 accepts (conforming): judge the rendering
            if scratch.violations.is_empty() && check_module(&m, "builder", r, &rp) {
                for l in log.iter() {
                    if let Some(name) = l.split('(').next() {
                        r.nontrivial(format!("builder:{}", name));
                    }
                }
            }
        }
    });
}
