//! C18 – lifting preserves module structure on the supported subset.

use crate::dbgtree::{self, Node};
use crate::generated::sr_ops::{SR_OP, SR_TERMINATOR};
use crate::geninst::{Form, Gen, LitStyle};
use crate::genmod;
use crate::gram::{db, AInst, AOp, AVal, K, Q};
use crate::util::{catch, hex_words, run_stage, Cfg, Json, Report, Rng};
use rspirv::dr;
use rspirv::lift::LiftContext;
use std::collections::HashMap;
use std::sync::OnceLock;

/// Opcodes eligible as block instructions: an sr::ops::Op variant exists, the grammar entry has a
/// result id and a result type, it is not OpPhi, and Token<Type> fields sit at fixed word positions.
struct Eligible {
    op: usize,
    /// concrete operand positions that must hold a declared type id
    type_positions: Vec<usize>,
}

fn eligible() -> &'static Vec<Eligible> {
    static E: OnceLock<Vec<Eligible>> = OnceLock::new();
    E.get_or_init(|| {
        let d = db();
        let mut v = vec![];
        for (name, fields) in SR_OP {
            let idx = match d.by_name.get(*name) {
                Some(i) => *i,
                None => continue,
            };
            let ri = &d.insts[idx];
            let has_rid = ri.ops.iter().any(|(k, _)| *k == K::IdResult);
            let has_rt = ri.ops.iter().any(|(k, _)| *k == K::IdResultType);
            if !has_rid || !has_rt || *name == "Phi" || *name == "Function" || *name == "FunctionParameter" || *name == "Label" {
                continue;
            }
            if crate::spec::classify(name) != crate::spec::Sym::BlockInst && *name != "Variable" && *name != "Undef" {
                continue;
            }
            let logical: Vec<(K, Q)> = ri.ops.iter().filter(|(k, _)| !matches!(k, K::IdResultType | K::IdResult)).cloned().collect();
            if logical.iter().any(|(k, _)| matches!(k, K::LiteralContextDependentNumber | K::PairLiteralIntegerIdRef | K::LiteralSpecConstantOpInteger)) {
                continue;
            }
            // Token<Type> fields: all earlier logical operands must be single required words
            let mut type_positions = vec![];
            let mut ok = fields.len() == logical.len();
            for (j, (_f, ty)) in fields.iter().enumerate() {
                if ty.contains("Token<Type>") {
                    if ty.starts_with("Option") || logical[..=j.min(logical.len() - 1)].iter().any(|(k, q)| *q != Q::One || !matches!(k, K::IdRef | K::IdScope | K::IdMemorySemantics | K::LiteralInteger)) {
                        ok = false;
                    }
                    type_positions.push(j);
                }
            }
            if ok {
                v.push(Eligible { op: idx, type_positions });
            }
        }
        v
    })
}

struct Built {
    insts: Vec<AInst>,
    version: u32,
    caps: Vec<u32>,
    mem: (u32, u32),
    /// type declarations in order: (id, expected variant name, expected leaves)
    types: Vec<(u32, String, Vec<String>)>,
    consts: Vec<(u32, String, Vec<String>)>,
    /// expected ops in order: (opname, leaves)
    ops: Vec<(String, Vec<String>, AInst)>,
    /// per function: (control mask value, result type id, per block: (phi type ids, terminator inst))
    funcs: Vec<(u32, u32, Vec<(Vec<u32>, AInst)>)>,
}

fn aop_leaf(o: &AOp) -> String {
    match crate::gram::aop_to_dr(o) {
        Some(d) => {
            let s = format!("{:?}", d);
            // strip the variant name and the outer parentheses: Dim(Dim2D) -> Dim2D
            match s.find('(') {
                Some(p) => s[p + 1..s.len() - 1].to_string(),
                None => s,
            }
        }
        None => "?".into(),
    }
}

fn build(rng: &mut Rng, must: usize) -> Option<Built> {
    let d = db();
    let el = eligible();
    let mut gen = Gen::with_id_policy(rng);
    gen.lit = LitStyle::Marker;
    gen.param_free = true;
    gen.max_variadic = 3;
    let mut insts: Vec<AInst> = vec![];
    // capabilities, memory model
    let capvals = d.enum_values(K::Capability);
    let mut caps = vec![];
    for _ in 0..rng.range(1, 4) {
        let v = capvals[rng.below(capvals.len())].1;
        caps.push(v);
        insts.push(AInst::named("Capability", None, None, vec![AOp::w(K::Capability, v)]));
    }
    let am = d.enum_values(K::AddressingModel)[rng.below(d.enum_values(K::AddressingModel).len())].1;
    let mm = d.enum_values(K::MemoryModel)[rng.below(d.enum_values(K::MemoryModel).len())].1;
    insts.push(AInst::named("MemoryModel", None, None, vec![AOp::w(K::AddressingModel, am), AOp::w(K::MemoryModel, mm)]));
    // types and constants, declared before use
    let mut types: Vec<(u32, String, Vec<String>)> = vec![];
    let mut consts: Vec<(u32, String, Vec<String>)> = vec![];
    let tix = |types: &Vec<(u32, String, Vec<String>)>, id: u32| types.iter().position(|t| t.0 == id).unwrap();
    let mut decl = |insts: &mut Vec<AInst>, types: &mut Vec<(u32, String, Vec<String>)>, gen: &mut Gen, name: &str, ops: Vec<AOp>, leaves: Vec<String>| -> u32 {
        let id = gen.fresh();
        insts.push(AInst::named(&format!("Type{}", name), None, Some(id), ops));
        types.push((id, name.to_string(), leaves));
        id
    };
    let void = decl(&mut insts, &mut types, &mut gen, "Void", vec![], vec![]);
    let boolt = decl(&mut insts, &mut types, &mut gen, "Bool", vec![], vec![]);
    let i32t = decl(&mut insts, &mut types, &mut gen, "Int", vec![AOp::lit(32), AOp::lit(1)], vec!["32".into(), "1".into()]);
    let u32t = decl(&mut insts, &mut types, &mut gen, "Int", vec![AOp::lit(32), AOp::lit(0)], vec!["32".into(), "0".into()]);
    let f32t = decl(&mut insts, &mut types, &mut gen, "Float", vec![AOp::lit(32)], vec!["32".into()]);
    let scalars = [boolt, i32t, u32t, f32t];
    let mut vectors: Vec<u32> = vec![];
    let mut all_types: Vec<u32> = vec![void, boolt, i32t, u32t, f32t];
    // constants of scalar types
    let mut const_ids: Vec<u32> = vec![];
    let cidx = |consts: &Vec<(u32, String, Vec<String>)>, id: u32| consts.iter().position(|c| c.0 == id).unwrap();
    for _ in 0..rng.range(1, 6) {
        let id = gen.fresh();
        match rng.below(7) {
            6 => {
                // sampler constant: addressing mode, normalized (any non-zero literal is true), filter mode
                // (the enumerant called `None` is left out: in Debug text it is indistinguishable from an empty Option)
                let am: Vec<(String, u32)> = d.enum_values(K::SamplerAddressingMode).iter().filter(|(n, _)| n != "None").cloned().collect();
                let fm = d.enum_values(K::SamplerFilterMode);
                let (an, av) = am[rng.below(am.len())].clone();
                let (fname, fv) = fm[rng.below(fm.len())].clone();
                let norm = *rng.pick(&[0u32, 1, 1, 2, u32::MAX]);
                let t = *rng.pick(&all_types);
                insts.push(AInst::named("ConstantSampler", Some(t), Some(id), vec![AOp::w(K::SamplerAddressingMode, av), AOp::lit(norm), AOp::w(K::SamplerFilterMode, fv)]));
                consts.push((id, "Sampler".into(), vec![an, (norm != 0).to_string(), fname]));
            }
            0 => {
                insts.push(AInst::named("ConstantTrue", Some(boolt), Some(id), vec![]));
                consts.push((id, "Bool".into(), vec!["true".into()]));
            }
            1 => {
                insts.push(AInst::named("ConstantFalse", Some(boolt), Some(id), vec![]));
                consts.push((id, "Bool".into(), vec!["false".into()]));
            }
            2 => {
                let v = rng.word();
                insts.push(AInst::named("Constant", Some(i32t), Some(id), vec![AOp { kind: K::LiteralContextDependentNumber, val: AVal::W(v) }]));
                consts.push((id, "Int".into(), vec![format!("{:?}", v as i32)]));
            }
            3 => {
                let v = rng.word();
                insts.push(AInst::named("Constant", Some(u32t), Some(id), vec![AOp { kind: K::LiteralContextDependentNumber, val: AVal::W(v) }]));
                consts.push((id, "UInt".into(), vec![format!("{:?}", v)]));
            }
            4 => {
                let v = rng.word();
                insts.push(AInst::named("Constant", Some(f32t), Some(id), vec![AOp { kind: K::LiteralContextDependentNumber, val: AVal::W(v) }]));
                consts.push((id, "Float".into(), vec![format!("{:?}", f32::from_bits(v))]));
            }
            _ => {
                let t = *rng.pick(&all_types);
                insts.push(AInst::named("ConstantNull", Some(t), Some(id), vec![]));
                consts.push((id, "Null".into(), vec![]));
            }
        }
        const_ids.push(id);
    }
    // derived types
    for _ in 0..rng.range(2, 8) {
        match rng.below(11) {
            0 => {
                let c = *rng.pick(&scalars);
                let n = rng.range(2, 4) as u32;
                let leaves = vec![format!("Token({})", tix(&types, c)), n.to_string()];
                let id = decl(&mut insts, &mut types, &mut gen, "Vector", vec![AOp::id(c), AOp::lit(n)], leaves);
                vectors.push(id);
                all_types.push(id);
            }
            1 if !vectors.is_empty() => {
                let c = *rng.pick(&vectors);
                let n = rng.range(2, 4) as u32;
                let leaves = vec![format!("Token({})", tix(&types, c)), n.to_string()];
                let id = decl(&mut insts, &mut types, &mut gen, "Matrix", vec![AOp::id(c), AOp::lit(n)], leaves);
                all_types.push(id);
            }
            2 => {
                let t = *rng.pick(&all_types);
                let scs = d.enum_values(K::StorageClass);
                let (scn, scv) = scs[rng.below(scs.len())].clone();
                let leaves = vec![scn, format!("Token({})", tix(&types, t))];
                let id = decl(&mut insts, &mut types, &mut gen, "Pointer", vec![AOp::w(K::StorageClass, scv), AOp::id(t)], leaves);
                all_types.push(id);
            }
            3 => {
                let t = *rng.pick(&all_types);
                let c = *rng.pick(&const_ids);
                let leaves = vec![format!("Token({})", tix(&types, t)), format!("Token({})", cidx(&consts, c))];
                let id = decl(&mut insts, &mut types, &mut gen, "Array", vec![AOp::id(t), AOp::id(c)], leaves);
                all_types.push(id);
            }
            4 => {
                let n = rng.below(4);
                let ms: Vec<u32> = (0..n).map(|_| *rng.pick(&all_types)).collect();
                let leaves = ms.iter().map(|m| format!("Token({})", tix(&types, *m))).collect();
                let id = decl(&mut insts, &mut types, &mut gen, "Struct", ms.iter().map(|m| AOp::id(*m)).collect(), leaves);
                all_types.push(id);
            }
            5 => {
                // composite constant of earlier constants
                let id = gen.fresh();
                let n = rng.below(4);
                let cs: Vec<u32> = (0..n).map(|_| *rng.pick(&const_ids)).collect();
                let t = *rng.pick(&all_types);
                insts.push(AInst::named("ConstantComposite", Some(t), Some(id), cs.iter().map(|c| AOp::id(*c)).collect()));
                consts.push((id, "Composite".into(), cs.iter().map(|c| format!("Token({})", cidx(&consts, *c))).collect()));
                const_ids.push(id);
            }
            7 => {
                // opaque types without operands
                let name = *rng.pick(&["Sampler", "Event", "DeviceEvent", "ReserveId", "Queue", "PipeStorage", "NamedBarrier", "RayQueryKHR", "HitObjectNV", "AccelerationStructureKHR"]);
                let id = decl(&mut insts, &mut types, &mut gen, name, vec![], vec![]);
                all_types.push(id);
            }
            8 => {
                let t = *rng.pick(&all_types);
                let name = *rng.pick(&["RuntimeArray", "SampledImage"]);
                let leaves = vec![format!("Token({})", tix(&types, t))];
                let id = decl(&mut insts, &mut types, &mut gen, name, vec![AOp::id(t)], leaves);
                all_types.push(id);
            }
            9 => {
                let (name, kind) = *rng.pick(&[("Pipe", K::AccessQualifier), ("BufferSurfaceINTEL", K::AccessQualifier), ("UntypedPointerKHR", K::StorageClass)]);
                let vals = d.enum_values(kind);
                let (en, ev) = vals[rng.below(vals.len())].clone();
                let id = decl(&mut insts, &mut types, &mut gen, name, vec![AOp::w(kind, ev)], vec![en]);
                all_types.push(id);
            }
            10 => {
                // types whose further operands are plain ids (kept as words by the structured representation)
                let t = *rng.pick(&all_types);
                let (name, typed, words) = *rng.pick(&[("CooperativeVectorNV", true, 1usize), ("CooperativeMatrixNV", true, 3), ("CooperativeMatrixKHR", true, 4), ("TensorLayoutNV", false, 2), ("NodePayloadArrayAMDX", false, 1)]);
                let mut ops = vec![];
                let mut leaves = vec![];
                if typed {
                    ops.push(AOp::id(t));
                    leaves.push(format!("Token({})", tix(&types, t)));
                }
                for _ in 0..words {
                    let w = gen.fresh();
                    ops.push(AOp::id(w));
                    leaves.push(w.to_string());
                }
                let id = decl(&mut insts, &mut types, &mut gen, name, ops, leaves);
                all_types.push(id);
            }
            _ => {}
        }
    }
    // function types
    let mut fn_types = vec![];
    for _ in 0..rng.range(1, 2) {
        let ret = *rng.pick(&all_types);
        let n = rng.below(3);
        let ps: Vec<u32> = (0..n).map(|_| *rng.pick(&all_types)).collect();
        let mut leaves = vec![format!("Token({})", tix(&types, ret))];
        leaves.extend(ps.iter().map(|p| format!("Token({})", tix(&types, *p))));
        let mut ops = vec![AOp::id(ret)];
        ops.extend(ps.iter().map(|p| AOp::id(*p)));
        let id = decl(&mut insts, &mut types, &mut gen, "Function", ops, leaves);
        fn_types.push((id, ret));
    }
    // functions
    let mut ops_expected = vec![];
    let mut funcs = vec![];
    let mut placed_must = false;
    let n_funcs = rng.range(1, 2);
    let terminators = ["Branch", "BranchConditional", "Return", "ReturnValue", "Kill", "Unreachable", "TerminateInvocation", "IgnoreIntersectionKHR", "TerminateRayKHR", "EmitMeshTasksEXT"];
    for fi in 0..n_funcs {
        let (fty, ret) = *rng.pick(&fn_types);
        // the result type an OpFunction names is its own operand: one function in three names another type
        // than the return type of its function type (the lifted function keeps what the instruction says)
        let ret = if rng.chance(1, 3) { *rng.pick(&all_types) } else { ret };
        let control = rng.u32() & 0xf;
        insts.push(AInst::named("Function", Some(ret), Some(gen.fresh()), vec![AOp::w(K::FunctionControl, control), AOp::id(fty)]));
        let mut blocks = vec![];
        let nb = rng.range(1, 4);
        let mut typed_ops: Vec<(u32, u32)> = vec![]; // (op id, type id) defined earlier in this function
        // branch targets usually name blocks of this function, in any direction (loops, a true target laid out
        // behind the false target, blocks nothing branches to): lifting follows the layout, not the control flow
        let labels: Vec<u32> = (0..nb).map(|_| gen.fresh()).collect();
        for bi in 0..nb {
            insts.push(AInst::named("Label", None, Some(labels[bi]), vec![]));
            // phis: sources are earlier ops of the same type (or unknown ids)
            let mut phi_types = vec![];
            for _ in 0..rng.below(3) {
                let t = *rng.pick(&all_types);
                let mut ops = vec![];
                for _ in 0..rng.below(3) {
                    let same: Vec<u32> = typed_ops.iter().filter(|(_, ty)| *ty == t).map(|(id, _)| *id).collect();
                    let src = if !same.is_empty() && rng.chance(2, 3) { *rng.pick(&same) } else { gen.fresh() };
                    ops.push(AOp::id(src));
                    ops.push(AOp::id(gen.fresh()));
                }
                insts.push(AInst::named("Phi", Some(t), Some(gen.fresh()), ops));
                phi_types.push(t);
            }
            let last_block = fi + 1 == n_funcs && bi + 1 == nb;
            let n_ops = rng.below(5) + if last_block && !placed_must { 1 } else { 0 };
            for k in 0..n_ops {
                let e = if last_block && !placed_must && k == 0 {
                    placed_must = true;
                    &el[must % el.len()]
                } else {
                    &el[rng.below(el.len())]
                };
                let ri = &d.insts[e.op];
                let mut x = match gen.inst(rng, ri, Form::Random) {
                    Some(x) => x,
                    None => continue,
                };
                let rt = *rng.pick(&all_types);
                x.rtype = Some(rt);
                for p in &e.type_positions {
                    if let Some(o) = x.ops.get_mut(*p) {
                        *o = AOp::w(o.kind, *rng.pick(&all_types));
                    }
                }
                // expected leaves: operands in order; Token<Type> positions -> Token(index)
                let mut leaves = vec![];
                for (p, o) in x.ops.iter().enumerate() {
                    if e.type_positions.contains(&p) {
                        leaves.push(format!("Token({})", tix(&types, o.word().unwrap())));
                    } else {
                        leaves.push(aop_leaf(o));
                    }
                }
                typed_ops.push((x.rid.unwrap(), rt));
                ops_expected.push((ri.opname.clone(), leaves, x.clone()));
                insts.push(x);
            }
            // sometimes a non-result instruction and an OpLine (both must be skipped by the lifter)
            if rng.chance(1, 3) {
                insts.push(AInst::named("Store", None, None, vec![AOp::id(gen.fresh()), AOp::id(gen.fresh())]));
            }
            if rng.chance(1, 4) {
                insts.push(AInst::named("Line", None, None, vec![AOp::id(gen.fresh()), AOp::lit(1), AOp::lit(2)]));
            }
            let tn = *rng.pick(&terminators);
            let mut t = gen.inst(rng, d.inst(tn), Form::Random)?;
            if rng.chance(3, 4) {
                let at: &[usize] = match tn {
                    "Branch" => &[0],
                    "BranchConditional" => &[1, 2],
                    _ => &[],
                };
                for p in at {
                    if let Some(o) = t.ops.get_mut(*p) {
                        *o = AOp::id(*rng.pick(&labels));
                    }
                }
            }
            insts.push(t.clone());
            blocks.push((phi_types, t));
        }
        insts.push(AInst::named("FunctionEnd", None, None, vec![]));
        funcs.push((control, ret, blocks));
    }
    Some(Built { insts, version: genmod::random_version(rng), caps, mem: (am, mm), types, consts, ops: ops_expected, funcs })
}

fn storage_items(dbg: &str) -> Result<Vec<Node>, String> {
    let n = dbgtree::parse(dbg)?;
    match n.field("data") {
        Some(Node::List(v)) => Ok(v.clone()),
        _ => Err("Storage Debug output has no data list".into()),
    }
}

fn leaves_of(n: &Node) -> Vec<String> {
    let mut v = vec![];
    match n {
        Node::Named { fields, .. } => {
            for (_, f) in fields {
                f.leaves(&mut v)
            }
        }
        other => other.leaves(&mut v),
    }
    // StructMember { token, decorations: [] } contributes only its token (empty lists vanish)
    v
}

pub fn run(cfg: &Cfg, rep: &mut Report) {
    rep.rule = "modules of the stated subset generated with known declaration order (void/bool/int/float/vector/matrix/pointer/array/struct/function types declared before use; Bool/Int/UInt/Float 32-bit constants, composites, null; 1..2 functions of 1..4 blocks with phis, result-producing instructions drawn from EVERY opcode that has an sr::ops::Op variant, a result id and no context-dependent operand (parameter-free mask bits only), skipped Store/Line, non-switch terminators) are loaded and lifted; the lifted module's version, capabilities, memory model, the Debug trees of types/constants/ops storages (one entry per declaration, variant = opname, leaves positional with type/constant ids as Token(index of the referenced declaration)), each function's control mask, result token, block count, block arguments (phi types) and terminators are compared with the generating module. distinct_nontrivial = distinct lifted opcodes / type kinds / constant kinds / terminators compared".into();
    rep.assumptions.push("Token<Type> operand positions are taken from the field declarations in sr/autogen_ops.rs (extracted text), not from the lifting code; OpSwitch, forward type references, 64-bit and spec constants are outside the subset".into());
    let el = eligible();
    if el.len() < 300 {
        rep.inconclusive.push(format!("only {} eligible opcodes found", el.len()));
        return;
    }
    // static cross-projection: the field list of every sr::ops variant lines up with the logical
    // operands of its grammar entry (count, optionality, repetition, kind class); otherwise operands
    // cannot be carried over positionally
    run_stage(cfg, rep, "field-lists", 1, |idx, _rng, r| {
        let d = db();
        let rp = || crate::util::replay_ref(cfg, "field-lists", idx);
        for (table, tname) in [(SR_OP, "Op"), (crate::generated::sr_ops::SR_BRANCH, "Branch"), (SR_TERMINATOR, "Terminator")] {
            for (name, fields) in table.iter() {
                let ri = match d.by_name.get(*name) {
                    Some(i) => &d.insts[*i],
                    None => continue,
                };
                if *name == "Phi" || *name == "Switch" || (tname == "Terminator" && *name == "Branch") {
                    continue;
                }
                let logical: Vec<(K, Q)> = ri.ops.iter().filter(|(k, _)| !matches!(k, K::IdResultType | K::IdResult)).cloned().collect();
                let mut why: Option<String> = None;
                if fields.len() != logical.len() {
                    why = Some(format!("{} field(s) for {} logical operand(s)", fields.len(), logical.len()));
                } else {
                    for ((f, ty), (k, q)) in fields.iter().zip(logical.iter()) {
                        let opt = ty.starts_with("Option<");
                        let vec = ty.starts_with("Vec<");
                        let q_ok = match q {
                            Q::One => !opt && !vec,
                            Q::ZeroOrOne => opt,
                            Q::ZeroOrMore => vec,
                        };
                        let inner = ty.trim_start_matches("Option<").trim_start_matches("Vec<").trim_end_matches('>');
                        let k_ok = match k {
                            K::IdRef | K::IdScope | K::IdMemorySemantics => inner == "spirv::Word" || inner.starts_with("Token<"),
                            K::LiteralInteger | K::LiteralFloat | K::LiteralExtInstInteger => inner == "u32" || inner == "spirv::Word",
                            K::LiteralString => inner == "String",
                            K::PairIdRefIdRef | K::PairIdRefLiteralInteger | K::PairLiteralIntegerIdRef => inner.starts_with('('),
                            K::LiteralContextDependentNumber | K::LiteralSpecConstantOpInteger => true,
                            // a parameterised mask may be modelled together with its parameters:
                            // (spirv::ImageOperands, Vec<spirv::Word>)
                            other => inner == format!("spirv::{}", crate::gram::kind_name(*other)) || inner.starts_with(&format!("(spirv::{},", crate::gram::kind_name(*other))),
                        };
                        if !q_ok || !k_ok {
                            why = Some(format!("field `{}: {}` does not fit operand {}:{:?}", f, ty, crate::gram::kind_name(*k), q));
                            break;
                        }
                    }
                }
                match why {
                    Some(w) => r.violation(format!("C18:field-list:{}", name), format!("sr::ops::{}::{}: {}", tname, name, w), rp()),
                    None => r.count("field_lists_compared", 1),
                }
                r.evaluations += 1;
            }
        }
    });
    let n = cfg.n((el.len() as u64) * 12, (el.len() as u64) * 4000);
    run_stage(cfg, rep, "modules", n, |idx, rng, r| {
        let b = match build(rng, idx as usize) {
            Some(b) => b,
            None => return,
        };
        let (words, _m, _s) = genmod::encode_module(b.version, 0, 1 << 20, &b.insts, None);
        let rp = || crate::util::replay_ref(cfg, "modules", idx).set("words", hex_words(&words));
        let fail = |r: &mut Report, rule: String, msg: String| {
            r.violation(format!("C18:{}", rule), format!("{}\nmodule: {}", msg, b.insts.iter().map(|i| i.show()).collect::<Vec<_>>().join(" ; ").chars().take(1500).collect::<String>()), rp());
        };
        let mut m = match catch(|| dr::load_words(&words)) {
            Ok(Ok(m)) => m,
            other => {
                fail(r, "load".into(), format!("subset module not loadable: {:?}", other.map(|x| x.err())));
                return;
            }
        };
        // the module value's version word is a plain field: one module in three gets non-zero reserved bytes
        // there (the parser writes them as zero; a module value edited by its owner need not have them so),
        // and the lifted module must carry the word of the module it was lifted from
        let mut want_version = b.version;
        if idx % 3 == 1 {
            if let Some(h) = m.header.as_mut() {
                h.version |= (idx as u32).wrapping_mul(0x9e37_79b9) & 0xff00_00ff;
                want_version = h.version;
            }
        }
        let must_name = &db().insts[el[idx as usize % el.len()].op].opname;
        let lifted = match catch(|| LiftContext::convert(&m)) {
            Err(p) => {
                fail(r, format!("panic:{}:{}", crate::util::panic_key(&p), must_name), format!("LiftContext::convert panicked: {} at {}", p.msg, p.loc));
                return;
            }
            Ok(Err(e)) => {
                fail(r, format!("convert-error:{:?}:{}", e, must_name).replace(' ', ""), format!("lifting failed: {:?}", e));
                return;
            }
            Ok(Ok(l)) => l,
        };
        // --- header-level facts
        if lifted.version != want_version {
            fail(r, "version".into(), format!("version {:#x}, module has {:#x}", lifted.version, want_version));
            return;
        }
        let caps: Vec<u32> = lifted.capabilities.iter().map(|c| *c as u32).collect();
        if caps != b.caps {
            fail(r, "capabilities".into(), format!("capabilities {:?}, module declares {:?}", caps, b.caps));
            return;
        }
        if (lifted.memory_model.addressing_model as u32, lifted.memory_model.memory_model as u32) != b.mem {
            fail(r, "memory-model".into(), format!("memory model {:?}, module has {:?}", lifted.memory_model, b.mem));
            return;
        }
        // --- storages
        let cmp = |r: &mut Report, what: &str, dbg: String, want: Vec<(String, Vec<String>)>| -> bool {
            let items = match storage_items(&dbg) {
                Ok(i) => i,
                Err(e) => {
                    r.inconclusive.push(format!("cannot parse Debug output of {}: {}", what, e));
                    return false;
                }
            };
            if items.len() != want.len() {
                fail(r, format!("{}-count", what), format!("{} {} lifted for {} declaration(s)", items.len(), what, want.len()));
                return false;
            }
            for (i, (node, (name, leaves))) in items.iter().zip(want.iter()).enumerate() {
                let got_name = node.name().to_string();
                let got_leaves = leaves_of(node);
                if &got_name != name {
                    fail(r, format!("{}-variant:{}", what, name), format!("{} #{} lifted as {}, declaration is {}", what, i, got_name, name));
                    return false;
                }
                if &got_leaves != leaves {
                    fail(r, format!("{}-operands:{}", what, name), format!("{} #{} ({}) lifted with leaves {:?}, declaration has {:?}", what, i, name, got_leaves, leaves));
                    return false;
                }
                r.nontrivial(format!("{}:{}", what, name));
            }
            true
        };
        if !cmp(r, "types", format!("{:?}", lifted.types), b.types.iter().map(|t| (t.1.clone(), t.2.clone())).collect()) {
            return;
        }
        if !cmp(r, "constants", format!("{:?}", lifted.constants), b.consts.iter().map(|t| (t.1.clone(), t.2.clone())).collect()) {
            return;
        }
        if !cmp(r, "ops", format!("{:?}", lifted.ops), b.ops.iter().map(|t| (t.0.clone(), t.1.clone())).collect()) {
            return;
        }
        // --- functions
        if lifted.functions.len() != b.funcs.len() {
            fail(r, "function-count".into(), format!("{} functions lifted, {} declared", lifted.functions.len(), b.funcs.len()));
            return;
        }
        let type_index: HashMap<u32, usize> = b.types.iter().enumerate().map(|(i, t)| (t.0, i)).collect();
        for (fi, (f, (control, ret, blocks))) in lifted.functions.iter().zip(b.funcs.iter()).enumerate() {
            if f.control.bits() != *control {
                fail(r, "function-control".into(), format!("function {} control {:?}, declared {:#x}", fi, f.control, control));
                return;
            }
            if format!("{:?}", f.result) != format!("Token({})", type_index[ret]) {
                fail(r, "function-result".into(), format!("function {} result {:?}, declared type index {}", fi, f.result, type_index[ret]));
                return;
            }
            // each function keeps its blocks in a storage of its own: its first block is that storage's first value
            if !blocks.is_empty() && f.start_block.index() != 0 {
                fail(r, "start-block".into(), format!("function {}: start block token {:?}, the first block of a function's own storage has index 0", fi, f.start_block));
                return;
            }
            let items = match storage_items(&format!("{:?}", f.blocks)) {
                Ok(i) => i,
                Err(e) => {
                    r.inconclusive.push(format!("cannot parse Debug output of blocks: {}", e));
                    return;
                }
            };
            if items.len() != blocks.len() {
                fail(r, "block-count".into(), format!("function {}: {} blocks lifted, {} declared", fi, items.len(), blocks.len()));
                return;
            }
            for (bi, (node, (phis, term))) in items.iter().zip(blocks.iter()).enumerate() {
                let mut args = vec![];
                if let Some(a) = node.field("arguments") {
                    a.leaves(&mut args);
                }
                let want_args: Vec<String> = phis.iter().map(|t| format!("Token({})", type_index[t])).collect();
                if args != want_args {
                    fail(r, "block-arguments".into(), format!("function {} block {}: arguments {:?}, phi result types give {:?}", fi, bi, args, want_args));
                    return;
                }
                let tnode = match node.field("terminator") {
                    Some(t) => t,
                    None => {
                        r.inconclusive.push("block Debug output has no terminator".into());
                        return;
                    }
                };
                // Terminator::Branch(Branch::X {..}) or Terminator::X {..}
                let tname = term.opname();
                let inner = if tnode.name() == "Branch" && SR_TERMINATOR.iter().any(|(n, f)| *n == "Branch" && !f.is_empty()) && !tnode.items().is_empty() && tname != "Branch" { tnode.items()[0].clone() } else if tnode.name() == "Branch" && tname == "Branch" { tnode.items().first().map(|n| (*n).clone()).unwrap_or(tnode.clone()) } else { tnode.clone() };
                let want_leaves: Vec<String> = term.ops.iter().map(aop_leaf).collect();
                if inner.name() != tname {
                    fail(r, format!("terminator-variant:{}", tname), format!("function {} block {}: terminator lifted as {:?}, block ends with Op{}", fi, bi, tnode, tname));
                    return;
                }
                let got = leaves_of(&inner);
                if got != want_leaves {
                    fail(r, format!("terminator-operands:{}", tname), format!("function {} block {}: terminator leaves {:?}, instruction has {:?}", fi, bi, got, want_leaves));
                    return;
                }
                r.nontrivial(format!("terminator:{}", tname));
            }
        }
        r.seen("lifted_opcodes", must_name.clone());
        r.count("ops_compared", b.ops.len() as u64);
        if idx < 1 {
            r.sample(Json::obj().set("types", b.types.len()).set("constants", b.consts.len()).set("ops", b.ops.len()).set("first_ops", b.ops.iter().take(3).map(|o| Json::from(o.2.show())).collect::<Vec<_>>()));
        }
    });
    rep.extra.push(("x_eligible_opcodes".into(), Json::from(el.len())));
}
