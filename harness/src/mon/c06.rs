//! C06 – every module built with the Builder survives assemble-then-load unchanged, and every
//! instruction-emitting method emits its opcode with the call's arguments in grammar order.

use crate::bmodel::{expected_from_table, method, method_sems, show_trace, ArgCtx, CallOut, MClass, MethodSem, RandArgs};
use crate::gram::{db, K};
use crate::mon::builder_term::open_block_builder;
use crate::rs;
use crate::spec;
use crate::util::{catch, run_stage, Cfg, Json, Report, Rng};
use rspirv::binary::Assemble;
use rspirv::dr::{self, Builder, Operand};
use rspirv::spirv::FunctionControl;

fn all_insts(m: &dr::Module) -> Vec<dr::Instruction> {
    m.all_inst_iter().cloned().collect()
}

/// Prepares a builder in the state in which `sem` is legal, and says where the instruction lands.
fn prepared(sem: &MethodSem) -> Builder {
    match (sem.class, sem.name) {
        (MClass::Structure, "begin_function") => Builder::new(),
        (MClass::Structure, "begin_block") | (MClass::Structure, "function_parameter") | (MClass::Structure, "end_function") => {
            let mut b = Builder::new();
            b.begin_function(900_001, Some(900_002), FunctionControl::NONE, 900_003).unwrap();
            b
        }
        (MClass::BlockInst, _) | (MClass::TerminatorFile, _) => open_block_builder(),
        (MClass::Context, _) => open_block_builder(),
        _ => Builder::new(),
    }
}

fn per_method(sem: &MethodSem, rng: &mut Rng, r: &mut Report, rp: &dyn Fn() -> Json, explicit: bool) {
    let mi = method(sem.idx);
    let call = match mi.call {
        Some(c) => c,
        None => return,
    };
    let opname = match &sem.opname {
        Some(o) => o.clone(),
        None => return,
    };
    let base = sem.name.strip_prefix("insert_").filter(|_| sem.is_insert).unwrap_or(sem.name);
    let mut b = prepared(sem);
    let mut ctx = ArgCtx { insert_end_only: true, explicit_id_8: if explicit { 8 } else { 0 }, repeat_in_lists: true, ..Default::default() };
    if sem.name.ends_with("_bit64") {
        // a 64-bit literal conforms only under a declared 64-bit type
        ctx.types64 = vec![b.type_int(64, 0), b.type_float(64, None)];
    }
    let before = all_insts(b.module_ref());
    let mut marker = 1_000_000;
    let mut args = RandArgs::new(rng, &mut marker, &ctx, sem.name);
    let out = match catch(|| call(&mut b, &mut args)) {
        Ok(o) => o,
        Err(p) => {
            r.violation(format!("C06:panic:{}", base), format!("Builder::{} panicked: {} at {}", sem.name, p.msg, p.loc), rp());
            return;
        }
    };
    let trace = args.trace.clone();
    let fail = |r: &mut Report, rule: &str, msg: String| {
        r.violation(format!("C06:{}:{}", rule, base), format!("Builder::{}({})\n{}", sem.name, show_trace(&trace), msg), rp().set("method", sem.name).set("args", show_trace(&trace)));
    };
    if out.is_err() {
        fail(r, "call-failed", format!("call failed in a state where it is legal: {:?}", out.err_name()));
        return;
    }
    let after = all_insts(b.module_ref());
    if after.len() != before.len() + 1 {
        fail(r, "emitted-count", format!("the call changed the number of instructions from {} to {}", before.len(), after.len()));
        return;
    }
    let pos = (0..before.len()).find(|i| before[*i] != after[*i]).unwrap_or(before.len());
    let emitted = &after[pos];
    let ri = db().inst(&opname);
    let exp = match expected_from_table(ri, &trace) {
        Ok(e) => e,
        Err(why) => {
            fail(r, "signature", format!("the method's parameters do not line up with the grammar entry of Op{}: {}\nemitted: {}", opname, why, rs::show_inst(emitted)));
            return;
        }
    };
    if emitted.class.opname != exp.opname {
        fail(r, "opcode", format!("emitted Op{}, the method's opcode is Op{}", emitted.class.opname, exp.opname));
        return;
    }
    if emitted.result_type != exp.rtype {
        fail(r, "result-type", format!("emitted result type {:?}, expected {:?}", emitted.result_type, exp.rtype));
        return;
    }
    match exp.rid {
        None => {
            if emitted.result_id.is_some() {
                fail(r, "result-id", format!("emitted result id {:?} but Op{} has none", emitted.result_id, opname));
                return;
            }
        }
        Some(Some(v)) => {
            if emitted.result_id != Some(v) || out.word().map(|w| w != v).unwrap_or(false) {
                fail(r, "result-id", format!("explicit result id {} requested, emitted {:?}, returned {:?}", v, emitted.result_id, out.word()));
                return;
            }
        }
        Some(None) => {
            if emitted.result_id.is_none() || (out.word().is_some() && out.word() != emitted.result_id) {
                fail(r, "result-id", format!("emitted result id {:?}, returned {:?}", emitted.result_id, out.word()));
                return;
            }
        }
    }
    if emitted.operands != exp.operands {
        fail(r, "operands", format!("emitted operands {:?}\nexpected (arguments in grammar order) {:?}", emitted.operands, exp.operands));
        return;
    }
    // the emitted instruction is grammar-conforming: it must assemble and parse back to itself
    let mut w = crate::gram::header(0x0001_0600, 0, 2_000_000);
    for i in &before {
        if i.class.opname.starts_with("Type") {
            w.extend(i.assemble());
        }
    }
    w.extend(emitted.assemble());
    match rs::parse_rec_words(&w) {
        Ok(p) => {
            if p.result.is_err() || p.rec.insts.last() != Some(emitted) {
                fail(r, "not-parseable", format!("the emitted instruction does not survive assemble+parse: {:?} -> {:?}\nemitted: {}", p.result.as_ref().err(), p.rec.insts.last().map(rs::show_inst), rs::show_inst(emitted)));
                return;
            }
        }
        Err(p) => {
            fail(r, "panic-parse", p.msg);
            return;
        }
    }
    // landing place
    let m = b.module_ref();
    let in_block = m.functions.iter().flat_map(|f| f.blocks.iter()).any(|bl| bl.instructions.iter().any(|i| i == emitted));
    let want_block = matches!(sem.class, MClass::BlockInst | MClass::TerminatorFile | MClass::Context);
    if want_block != in_block && sem.class != MClass::Structure {
        fail(r, "placement", format!("instruction landed {} a block", if in_block { "inside" } else { "outside" }));
        return;
    }
    if let spec::Sym::Global(sec) = spec::classify(&opname) {
        let secs: [&Vec<dr::Instruction>; 11] = [&m.capabilities, &m.extensions, &m.ext_inst_imports, &Vec::new(), &m.entry_points, &m.execution_modes, &m.debug_string_source, &m.debug_names, &m.debug_module_processed, &m.annotations, &m.types_global_values];
        let ok = if sec as usize == 3 { m.memory_model.as_ref() == Some(emitted) } else { secs[sec as usize].iter().any(|i| i == emitted) };
        if !ok {
            fail(r, "section", format!("Op{} was not stored in section {}", opname, spec::SECTION_NAMES[sec as usize]));
            return;
        }
    }
    r.nontrivial(format!("method:{}", sem.name));
    r.count("methods_calls_compared", 1);
}

fn max_id(m: &dr::Module) -> u32 {
    let mut mx = 0;
    for i in m.all_inst_iter() {
        for v in i.result_id.iter().chain(i.result_type.iter()) {
            mx = mx.max(*v);
        }
        for o in &i.operands {
            if let Some(v) = o.id_ref_any() {
                mx = mx.max(v);
            }
        }
    }
    mx
}

/// One random complete Builder history; returns the finished module and a textual log.
pub fn history(rng: &mut Rng, r: &mut Report, rp: &dyn Fn() -> Json, cover: usize) -> Option<(dr::Module, Vec<String>, Option<(u8, u8)>)> {
    let sems = method_sems();
    let mut log: Vec<String> = vec![];
    // one history in three continues a module whose id bound lies just below a boundary value (powers of
    // two, powers of ten, 0x400000), so that the builder's consecutive ids cross it
    let mut b = if rng.chance(1, 3) {
        let mut bounds: Vec<u32> = (8..32).map(|k| 1u32 << k).collect();
        bounds.extend([100, 1000, 10_000, 100_000, 1_000_000, 0x40_0000]);
        let start = rng.pick(&bounds).saturating_sub(rng.below(20) as u32).max(1);
        let mut m = dr::Module::new();
        m.header = Some(dr::ModuleHeader::new(start));
        log.push(format!("new_from_module(bound {})", start));
        Builder::new_from_module(m)
    } else {
        Builder::new()
    };
    let version = if rng.chance(1, 2) {
        let v = (rng.below(256) as u8, rng.below(256) as u8);
        b.set_version(v.0, v.1);
        log.push(format!("set_version({}, {})", v.0, v.1));
        Some(v)
    } else {
        None
    };
    // ids taken from the builder: a pool of reserved ids to reference, plus never-defined ones
    let mut pool: Vec<u32> = (0..6).map(|_| b.id()).collect();
    let untyped: Vec<u32> = pool.clone();
    let mut ctx = ArgCtx::default();
    let t32 = [b.type_int(32, 0), b.type_int(32, 1), b.type_float(32, None), b.type_int(16, 0), b.type_int(8, 1)];
    let t64 = [b.type_int(64, 0), b.type_float(64, None)];
    ctx.types32 = t32.to_vec();
    ctx.types64 = t64.to_vec();
    // every history holds typed literals of both widths (they depend on the ids of their types)
    for t in t64.iter() {
        let v = ((rng.word() as u64) << 32) | rng.word() as u64;
        let c = if rng.chance(1, 2) { b.constant_bit64(*t, v) } else { b.spec_constant_bit64(*t, v) };
        pool.push(c);
    }
    let c32 = b.constant_bit32(t32[rng.below(t32.len())], rng.word());
    pool.push(c32);
    log.push("type_int/type_float x7; constant_bit64 x2; constant_bit32".into());
    let by_class = |c: MClass| -> Vec<&MethodSem> { sems.iter().filter(|m| m.class == c && method(m.idx).call.is_some()).collect() };
    let globals: Vec<&MethodSem> = by_class(MClass::Global).into_iter().chain(by_class(MClass::Type)).filter(|m| m.name != "type_struct_continued_intel" && m.name != "type_struct_continued_intel_id").collect();
    let blocks = by_class(MClass::BlockInst);
    let terms: Vec<&MethodSem> = by_class(MClass::TerminatorFile).into_iter().filter(|m| m.opname.as_deref().map(spec::is_block_terminator).unwrap_or(false)).collect();
    let contexts = by_class(MClass::Context);
    let mut marker = 0u32;
    let mut must: Option<&MethodSem> = sems.get(cover).filter(|m| method(m.idx).call.is_some() && m.opname.is_some() && m.class != MClass::Structure && !m.name.starts_with("type_struct_continued"));
    let steps = rng.range(3, 40);
    let mut do_call = |b: &mut Builder, sem: &MethodSem, rng: &mut Rng, ctx: &mut ArgCtx, pool: &mut Vec<u32>, log: &mut Vec<String>, r: &mut Report| -> bool {
        let mi = method(sem.idx);
        let call = mi.call.unwrap();
        // explicit result ids come from the builder too
        ctx.small_pool = Some(if sem.name == "switch" || sem.name == "insert_switch" { untyped.clone() } else { pool.clone() });
        ctx.explicit_id_8 = 0;
        ctx.insert_end_only = sem.class == MClass::TerminatorFile;
        if let (Some(f), Some(bl)) = (b.selected_function(), b.selected_block()) {
            ctx.block_len = b.module_ref().functions[f].blocks[bl].instructions.len();
        }
        let count_before = b.module_ref().all_inst_iter().count();
        let mut args = RandArgs::new(rng, &mut marker, ctx, sem.name);
        let out = match catch(|| call(b, &mut args)) {
            Ok(o) => o,
            Err(p) => {
                r.violation(format!("C06:panic:{}", sem.name), format!("Builder::{} panicked in a complete history: {} at {}\nhistory: {}", sem.name, p.msg, p.loc, log.join("; ")), rp());
                return false;
            }
        };
        let trace = args.trace.clone();
        log.push(format!("{}({}){}", sem.name, show_trace(&trace), out.err_name().map(|e| format!(" -> Err({})", e)).unwrap_or_default()));
        // every successful emitting call adds exactly one instruction (implicit type requests: one or none)
        let added = b.module_ref().all_inst_iter().count() as i64 - count_before as i64;
        // (the memory model is a single slot: a second memory_model call replaces the first)
        let ok_added = if sem.class == MClass::Type || sem.name == "memory_model" { added == 0 || added == 1 } else { added == 1 };
        if !out.is_err() && sem.opname.is_some() && !ok_added {
            r.violation(format!("C06:emitted-count-in-history:{}", sem.name), format!("Builder::{} added {} instruction(s)\nhistory: {}", sem.name, added, log.join("; ")), rp());
            return false;
        }
        // sometimes the very same call is made again with identical arguments: it must emit again
        if !out.is_err() && sem.class != MClass::TerminatorFile && sem.class != MClass::Type && sem.opname.is_some() && rng.chance(1, 10) && !trace.iter().any(|a| a.name == "result_id" && matches!(a.v, crate::bmodel::ArgV::OptWord(Some(_)))) {
            let before2 = b.module_ref().all_inst_iter().count();
            let mut again = crate::bmodel::ReplayArgs::new(&trace);
            match catch(|| call(b, &mut again)) {
                Ok(o2) => {
                    log.push(format!("{}(same arguments again)", sem.name));
                    if let Some(w) = o2.word() {
                        pool.push(w);
                    }
                    let added2 = b.module_ref().all_inst_iter().count() as i64 - before2 as i64;
                    if !o2.is_err() && again.ok && added2 != 1 && sem.name != "memory_model" {
                        r.violation(format!("C06:repeated-call-emits:{}", sem.name), format!("Builder::{} called twice in succession with identical arguments added {} instruction(s) the second time\nhistory: {}", sem.name, added2, log.join("; ")), rp());
                        return false;
                    }
                }
                Err(p) => {
                    r.violation(format!("C06:panic:{}", sem.name), format!("repeated Builder::{} panicked: {}", sem.name, p.msg), rp());
                    return false;
                }
            }
        }
        if let Some(w) = out.word() {
            pool.push(w);
        }
        if let CallOut::ResWord(Err(_)) | CallOut::ResUnit(Err(_)) = out {
            r.violation(format!("C06:call-failed-in-history:{}", sem.name), format!("Builder::{} failed where it is legal\nhistory: {}", sem.name, log.join("; ")), rp());
            return false;
        }
        true
    };
    let mut fn_open = false;
    let mut blk_open = false;
    for _ in 0..steps {
        let choice = rng.below(10);
        if !fn_open {
            match choice {
                0..=1 => {
                    let ty = *rng.pick(&pool);
                    let fty = *rng.pick(&pool);
                    match b.begin_function(ty, None, FunctionControl::from_bits(rng.u32() & 0xf).unwrap_or(FunctionControl::NONE), fty) {
                        Ok(id) => {
                            pool.push(id);
                            log.push("begin_function".into());
                            fn_open = true;
                        }
                        Err(e) => {
                            r.violation("C06:call-failed-in-history:begin_function".to_string(), format!("{:?}", e), rp());
                            return None;
                        }
                    }
                }
                2 => {
                    let c = *rng.pick(&contexts);
                    if !do_call(&mut b, c, rng, &mut ctx, &mut pool, &mut log, r) {
                        return None;
                    }
                }
                _ => {
                    let g = match must.take().filter(|m| matches!(m.class, MClass::Global | MClass::Type)) {
                        Some(m) => m,
                        None => *rng.pick(&globals),
                    };
                    if !do_call(&mut b, g, rng, &mut ctx, &mut pool, &mut log, r) {
                        return None;
                    }
                }
            }
        } else if !blk_open {
            match choice {
                0..=1 => {
                    let t = *rng.pick(&pool);
                    if let Ok(id) = b.function_parameter(t) {
                        pool.push(id);
                        log.push("function_parameter".into());
                    }
                }
                2 => {
                    if b.end_function().is_ok() {
                        log.push("end_function".into());
                        fn_open = false;
                    }
                }
                3 => {
                    // module-level emitters are legal at any time
                    let g = *rng.pick(&globals);
                    if !do_call(&mut b, g, rng, &mut ctx, &mut pool, &mut log, r) {
                        return None;
                    }
                }
                _ => {
                    if let Ok(id) = b.begin_block(None) {
                        pool.push(id);
                        log.push("begin_block".into());
                        blk_open = true;
                    }
                }
            }
        } else {
            match choice {
                0..=1 => {
                    let t = match must.take().filter(|m| m.class == MClass::TerminatorFile && m.opname.as_deref().map(spec::is_block_terminator).unwrap_or(false)) {
                        Some(m) => m,
                        None => *rng.pick(&terms),
                    };
                    if !do_call(&mut b, t, rng, &mut ctx, &mut pool, &mut log, r) {
                        return None;
                    }
                    blk_open = false;
                }
                2 => {
                    let c = *rng.pick(&contexts);
                    if !do_call(&mut b, c, rng, &mut ctx, &mut pool, &mut log, r) {
                        return None;
                    }
                }
                3 => {
                    let g = *rng.pick(&globals);
                    if !do_call(&mut b, g, rng, &mut ctx, &mut pool, &mut log, r) {
                        return None;
                    }
                }
                _ => {
                    let m = match must.take().filter(|m| matches!(m.class, MClass::BlockInst) || (m.class == MClass::TerminatorFile && !m.opname.as_deref().map(spec::is_block_terminator).unwrap_or(true))) {
                        Some(m) => m,
                        None => *rng.pick(&blocks),
                    };
                    if !do_call(&mut b, m, rng, &mut ctx, &mut pool, &mut log, r) {
                        return None;
                    }
                }
            }
        }
    }
    // complete the history
    if blk_open {
        let t = *rng.pick(&terms);
        if !do_call(&mut b, t, rng, &mut ctx, &mut pool, &mut log, r) {
            return None;
        }
    }
    if fn_open && b.end_function().is_err() {
        return None;
    }
    let mut version = version;
    // the version may be set at any time, also after everything else ...
    if rng.chance(1, 4) {
        let v = (rng.below(256) as u8, rng.below(256) as u8);
        b.set_version(v.0, v.1);
        log.push(format!("set_version({}, {})", v.0, v.1));
        version = Some(v);
    }
    // ... and the id allocated last may be one that is only referenced (a forward reference, a name for an id
    // defined elsewhere): the bound must still be above it
    if rng.chance(1, 2) {
        let late = b.id();
        b.name(late, "late");
        log.push(format!("id() -> {}; name({}, \"late\")", late, late));
    }
    log.push("module()".into());
    Some((b.module(), log, version))
}

/// The finished module: version as set, bound above every id, assemble, load, built == loaded.
fn roundtrip(m: &dr::Module, log: &[String], version: Option<(u8, u8)>, r: &mut Report, rp: &dyn Fn() -> Json) {
    let fail = |r: &mut Report, rule: String, msg: String| {
        r.violation(format!("C06:{}", rule), format!("{}\nhistory: {}", msg, log.join("; ")), rp().set("history", log.join("; ")));
    };
    let h = match &m.header {
        Some(h) => h.clone(),
        None => {
            fail(r, "no-header".into(), "module() returned a module without header".into());
            return;
        }
    };
    if let Some((ma, mi)) = version {
        if h.version != ((ma as u32) << 16 | (mi as u32) << 8) {
            fail(r, "version".into(), format!("header version {:#x} after set_version({}, {})", h.version, ma, mi));
            return;
        }
    }
    let mx = max_id(m);
    if h.bound <= mx {
        fail(r, "bound".into(), format!("header bound {} is not above the largest id used ({})", h.bound, mx));
        return;
    }
    let words = match catch(|| m.assemble()) {
        Ok(w) => w,
        Err(p) => {
            fail(r, "panic:assemble".into(), p.msg);
            return;
        }
    };
    match catch(|| dr::load_words(&words)) {
        Err(p) => fail(r, "panic:load".into(), p.msg),
        Ok(Err(e)) => {
            // name the first instruction class involved for a stable signature
            let culprit = match &e {
                rspirv::binary::ParseState::ConsumerError(ce) => format!("{}", ce),
                other => rs::state_name(other),
            };
            fail(r, format!("load-rejected:{}", culprit.split('`').nth(1).unwrap_or(&culprit).replace(' ', "_")), format!("the assembled module is rejected by the loader: {:?}", e));
        }
        Ok(Ok(l)) => {
            if let Some(d) = rs::module_diff(m, &l) {
                let key: String = d.split(':').next().unwrap_or("").split(' ').take(2).collect::<Vec<_>>().join("_");
                fail(r, format!("built-vs-loaded:{}", key), format!("built and loaded modules differ: {}", d));
            } else {
                for l in log {
                    if let Some(name) = l.split('(').next() {
                        r.nontrivial(format!("in-history:{}", name));
                    }
                }
                r.count("histories_roundtripped", 1);
                r.count("instructions_in_histories", m.all_inst_iter().count() as u64);
            }
        }
    }
}

/// Realistic multi-call idioms whose arguments are related across calls (random histories practically never
/// relate them): a switch on a typed selector defined as a module-scope constant / in the same function / in an
/// EARLIER function, with case literals of the selector's width; extended instructions of every number of an
/// imported set (any of the known and near-miss set names) with 0..5 id operands; structured control flow with
/// line-debug info between the merge instruction and the terminator.
fn idiom(rng: &mut Rng, idx: u64) -> (dr::Module, Vec<String>, Vec<(u32, &'static str, Vec<Operand>)>) {
    use rspirv::spirv::{FunctionControl, LoopControl, SelectionControl};
    let d = crate::gram::db();
    let mut log: Vec<String> = vec![];
    // (id the call returned, opcode, operands the call's arguments denote)
    let mut requested: Vec<(u32, &'static str, Vec<Operand>)> = vec![];
    let mut b = Builder::new();
    let void = b.type_void();
    let fnty = b.type_function(void, vec![]);
    match idx % 5 {
        4 => {
            // declarations that are prefixes / extensions / permutations of one another: a struct {a, b} and a
            // struct {a}, a function type with one parameter more, a float type with and without an encoding,
            // arrays that differ in the length only -- every request carries ITS arguments
            let a = b.type_int(32, 0);
            let f = b.type_float(32, None);
            let len = b.constant_bit32(a, 4);
            let pool = [a, f, void, len];
            log.push("prefix-related type requests".to_string());
            for _ in 0..rng.range(2, 7) {
                let n = rng.range(1, 4);
                let members: Vec<u32> = (0..n).map(|_| *rng.pick(&pool[..3])).collect();
                let cut = rng.below(n + 1);
                let variants: [Vec<u32>; 3] = [members.clone(), members[..cut].to_vec(), members.iter().rev().cloned().collect()];
                for (vi, v) in variants.iter().enumerate() {
                    if vi > 0 && rng.chance(1, 3) {
                        continue;
                    }
                    match rng.below(4) {
                        0 => {
                            let id = b.type_struct(v.clone());
                            log.push(format!("type_struct({:?}) -> {}", v, id));
                            requested.push((id, "TypeStruct", v.iter().map(|x| Operand::IdRef(*x)).collect()));
                        }
                        1 => {
                            let id = b.type_function(f, v.clone());
                            log.push(format!("type_function({}, {:?}) -> {}", f, v, id));
                            requested.push((id, "TypeFunction", std::iter::once(f).chain(v.iter().cloned()).map(Operand::IdRef).collect()));
                        }
                        2 => {
                            let elem = v.first().cloned().unwrap_or(f);
                            let l = if vi == 1 { len } else { a };
                            let id = b.type_array(elem, l);
                            log.push(format!("type_array({}, {}) -> {}", elem, l, id));
                            requested.push((id, "TypeArray", vec![Operand::IdRef(elem), Operand::IdRef(l)]));
                        }
                        _ => {
                            let w = *rng.pick(&[16u32, 32, 64]);
                            // (whatever encoding the live enumeration declares: no enumerant is named here, a grammar update renames them)
                            let enc = if vi == 1 { None } else { [0u32, 1, 2, 4214, 4215, 0x7fff_ffff].iter().find_map(|v| rspirv::spirv::FPEncoding::from_u32(*v)) };
                            let id = b.type_float(w, enc);
                            log.push(format!("type_float({}, {:?}) -> {}", w, enc, id));
                            let mut ops = vec![Operand::LiteralBit32(w)];
                            if let Some(e) = enc {
                                ops.push(Operand::FPEncoding(e));
                            }
                            requested.push((id, "TypeFloat", ops));
                        }
                    }
                }
            }
        }
        _ => {}
    }
    match idx % 5 {
        4 => {}
        0 => {
            let widths = [(64u32, true), (64, true), (32, false), (16, false), (8, false)];
            let (w, two) = widths[rng.below(widths.len())];
            let t = if w >= 16 && rng.chance(1, 3) { b.type_float(w, None) } else { b.type_int(w, rng.below(2) as u32) };
            let other = b.type_int(if two { 32 } else { 64 }, 0);
            let lit = |rng: &mut Rng| if two { Operand::LiteralBit64(((rng.word() as u64) << 32) | rng.word() as u64) } else { Operand::LiteralBit32(rng.word()) };
            let c = if two { b.constant_bit64(t, 7) } else { b.constant_bit32(t, 7) };
            let n_before = rng.below(3);
            let mut earlier_vals = vec![];
            for _ in 0..n_before {
                b.begin_function(void, None, FunctionControl::NONE, fnty).unwrap();
                b.begin_block(None).unwrap();
                earlier_vals.push(b.undef(t, None));
                let _ = b.undef(other, None);
                b.ret().unwrap();
                b.end_function().unwrap();
            }
            b.begin_function(void, None, FunctionControl::NONE, fnty).unwrap();
            b.begin_block(None).unwrap();
            let local = b.undef(t, None);
            let (sel, what) = match rng.below(3) {
                0 => (c, "module-scope constant"),
                1 if !earlier_vals.is_empty() => (*rng.pick(&earlier_vals), "value of an earlier function"),
                _ => (local, "value of the same function"),
            };
            let n_cases = rng.below(4);
            let labels: Vec<u32> = (0..n_cases + 1).map(|_| b.id()).collect();
            let cases: Vec<(Operand, u32)> = (0..n_cases).map(|i| (lit(rng), labels[i + 1])).collect();
            log.push(format!("{}-bit selector = {}, {} case(s), {} earlier function(s)", w, what, n_cases, n_before));
            b.switch(sel, labels[0], cases).unwrap();
            for l in labels {
                b.begin_block(Some(l)).unwrap();
                b.ret().unwrap();
            }
            b.end_function().unwrap();
        }
        1 => {
            let name = *rng.pick(crate::scale::IMPORT_NAMES);
            let decoy = b.ext_inst_import(*rng.pick(crate::scale::IMPORT_NAMES));
            let set = b.ext_inst_import(name);
            b.begin_function(void, None, FunctionControl::NONE, fnty).unwrap();
            b.begin_block(None).unwrap();
            let table: Vec<u32> = if name.starts_with("GLSL") { d.glsl.iter().map(|e| e.opcode).collect() } else { d.cl.iter().map(|e| e.opcode).collect() };
            for _ in 0..rng.range(1, 6) {
                let num = if rng.chance(1, 8) { rng.below(300) as u32 } else { table[rng.below(table.len())] };
                let n_ops = rng.below(6);
                let ops: Vec<Operand> = (0..n_ops).map(|_| Operand::IdRef(if rng.chance(1, 2) { rng.below(8) as u32 } else { b.id() })).collect();
                let s = if rng.chance(1, 6) { decoy } else { set };
                log.push(format!("ext_inst(set {:?}{}, number {}, {} id operands)", name, if s == decoy { " (decoy import)" } else { "" }, num, n_ops));
                b.ext_inst(void, None, s, num, ops).unwrap();
            }
            b.ret().unwrap();
            b.end_function().unwrap();
        }
        3 => {
            // enumerants the LIVE enumerations declare beyond the frozen reference (what a grammar update adds):
            // through the generic Builder methods, with parameters of the kinds the library's own reflection
            // reports, they must round-trip like every other enumerant
            use crate::generated::decls;
            let mut extra: Vec<(K, u32)> = vec![];
            for k in [K::ExecutionMode, K::Decoration, K::StorageClass, K::BuiltIn, K::Capability] {
                if let Some(e) = decls::ENUMS.iter().find(|e| e.name == crate::gram::kind_name(k)) {
                    extra.extend(e.variants.iter().map(|(_, v)| *v).filter(|v| !d.enum_declared(k, *v)).map(|v| (k, v)));
                }
            }
            let f = b.begin_function(void, None, FunctionControl::NONE, fnty).unwrap();
            b.begin_block(None).unwrap();
            b.ret().unwrap();
            b.end_function().unwrap();
            log.push(format!("{} enumerants beyond the frozen reference", extra.len()));
            for _ in 0..extra.len().min(4) {
                let (k, v) = extra[rng.below(extra.len())];
                let params: Vec<K> = decls::mk_enum_operand(k, v).map(|o| o.additional_operands().iter().map(|l| l.kind).collect()).unwrap_or_default();
                let as_operands = |b: &mut Builder| -> Option<Vec<Operand>> {
                    params.iter().map(|p| match p {
                        K::LiteralInteger => Some(Operand::LiteralBit32(8)),
                        K::IdRef => Some(Operand::IdRef(b.id())),
                        K::LiteralString => Some(Operand::LiteralString("s".into())),
                        _ => None,
                    }).collect()
                };
                match k {
                    K::ExecutionMode => {
                        if let Some(m) = decls::ExecutionMode_by_value(v) {
                            if params.iter().all(|p| *p == K::LiteralInteger) {
                                b.execution_mode(f, m, vec![8u32; params.len()]);
                                log.push(format!("execution_mode({}, {:?}, {} literals)", f, m, params.len()));
                            } else if params.iter().all(|p| *p == K::IdRef) {
                                let ids: Vec<u32> = params.iter().map(|_| b.id()).collect();
                                b.execution_mode_id(f, m, ids);
                                log.push(format!("execution_mode_id({}, {:?}, {} ids)", f, m, params.len()));
                            }
                        }
                    }
                    K::Decoration => {
                        if let (Some(dec), Some(ops)) = (decls::Decoration_by_value(v), as_operands(&mut b)) {
                            b.decorate(f, dec, ops);
                            log.push(format!("decorate({}, {:?}, {} parameters)", f, dec, params.len()));
                        }
                    }
                    K::StorageClass => {
                        if let Some(sc) = decls::StorageClass_by_value(v) {
                            let _ = b.variable(void, None, sc, None);
                            log.push(format!("variable(.., {:?})", sc));
                        }
                    }
                    K::BuiltIn => {
                        if let Some(bi) = decls::BuiltIn_by_value(v) {
                            b.decorate(f, rspirv::spirv::Decoration::BuiltIn, vec![Operand::BuiltIn(bi)]);
                            log.push(format!("decorate({}, BuiltIn, {:?})", f, bi));
                        }
                    }
                    _ => {
                        if let Some(c) = decls::Capability_by_value(v) {
                            b.capability(c);
                            log.push(format!("capability({:?})", c));
                        }
                    }
                }
            }
        }
        _ => {
            let file = b.string("shader.comp");
            let tb = b.type_bool();
            let cond = b.constant_true(tb);
            b.begin_function(void, None, FunctionControl::NONE, fnty).unwrap();
            b.begin_block(None).unwrap();
            let (m1, t1, f1) = (b.id(), b.id(), b.id());
            let _ = b.undef(tb, None);
            let looped = rng.chance(1, 2);
            if looped {
                b.loop_merge(m1, t1, LoopControl::NONE, vec![]).unwrap();
            } else {
                b.selection_merge(m1, SelectionControl::NONE).unwrap();
            }
            let n_lines = rng.below(3);
            for i in 0..n_lines {
                if rng.chance(1, 4) {
                    b.no_line();
                } else {
                    b.line(file, 10 + i as u32, rng.below(2) as u32);
                }
            }
            let term = rng.below(3);
            match term {
                0 => b.branch_conditional(cond, t1, f1, vec![]).unwrap(),
                1 => b.branch(t1).unwrap(),
                _ => b.switch(cond, t1, vec![(Operand::LiteralBit32(1), f1)]).unwrap(),
            }
            log.push(format!("{} merge, {} line instruction(s), terminator kind {}", if looped { "loop" } else { "selection" }, n_lines, term));
            for l in [t1, f1, m1] {
                b.begin_block(Some(l)).unwrap();
                if rng.chance(1, 2) {
                    b.line(file, 20, 1);
                }
                if l == m1 {
                    b.ret().unwrap();
                } else {
                    b.branch(m1).unwrap();
                }
            }
            b.end_function().unwrap();
        }
    }
    log.push("module()".into());
    (b.module(), log, requested)
}

pub fn run(cfg: &Cfg, rep: &mut Report) {
    rep.rule = "(per method) every instruction-emitting Builder method (call stubs generated from the signatures of dr/build/*.rs, ~1150 methods) is called in a state where it is legal with unique-marker arguments; the ONE instruction it adds is compared with the instruction computed from the grammar entry of the method's opcode (name rule) and the arguments in grammar order, must land in a block / its logical-layout section, and must survive assemble+parse; (idioms) switches on typed selectors from module scope / the same / an earlier function with case literals of the selector's width, extended instructions of every number of imported sets, merge + line info + terminator; (histories) random complete Builder histories with ids taken from the builder: assemble, load, built == loaded section by section, version as set, bound above every id used. distinct_nontrivial = distinct methods compared + distinct methods covered in histories".into();
    rep.assumptions.push("method-to-opcode mapping: strip insert_/_id, drop underscores, lowercase (ret/ret_value -> Return/ReturnValue); begin_block_no_label, select_*, pop_instruction are outside C06 (C12 covers them)".into());
    let sems = method_sems();
    let emitting: Vec<usize> = sems.iter().filter(|m| m.opname.is_some() && method(m.idx).call.is_some()).map(|m| m.idx).collect();
    let unmapped: Vec<&str> = sems.iter().filter(|m| m.opname.is_none() && m.class != MClass::NoEmit && method(m.idx).call.is_some()).map(|m| m.name).collect();
    for u in &unmapped {
        rep.violation(format!("C06:unmapped-method:{}", u), format!("Builder method {} does not correspond to any opcode by the naming rule", u), Json::obj().set("stage", "mapping"));
    }
    let reps = cfg.n(6, 200);
    let em = &emitting;
    run_stage(cfg, rep, "per-method", emitting.len() as u64 * reps, |idx, rng, r| {
        let sem = &sems[em[(idx % em.len() as u64) as usize]];
        let rp = || crate::util::replay_ref(cfg, "per-method", idx);
        per_method(sem, rng, r, &rp, (idx / em.len() as u64) % 2 == 1);
    });
    let n = cfg.n(8_000, 2_000_000);
    run_stage(cfg, rep, "histories", n, |idx, rng, r| {
        let rp = || crate::util::replay_ref(cfg, "histories", idx);
        let cover = (idx % sems.len() as u64) as usize;
        let (m, log, version) = match history(rng, r, &rp, cover) {
            Some(x) => x,
            None => return,
        };
        if idx < 2 {
            r.sample(Json::obj().set("history", log.iter().take(10).map(|s| Json::from(s.chars().take(160).collect::<String>())).collect::<Vec<_>>()));
        }
        roundtrip(&m, &log, version, r, &rp);
    });
    run_stage(cfg, rep, "idioms", cfg.n(3_000, 600_000), |idx, rng, r| {
        let rp = || crate::util::replay_ref(cfg, "idioms", idx);
        let built = catch(|| idiom(rng, idx));
        match built {
            Ok((m, log, requested)) => {
                r.seen("idioms", log.first().map(|s| s.split(',').next().unwrap_or("").split('(').next().unwrap_or("").to_string()).unwrap_or_default());
                for (id, opname, ops) in &requested {
                    let decl = m.types_global_values.iter().find(|i| i.result_id == Some(*id));
                    if decl.map(|i| i.class.opname != *opname || i.operands != *ops).unwrap_or(true) {
                        r.violation(format!("C06:request-not-carried:{}", opname), format!("a request for Op{} {:?} returned id {}, which the module declares as {:?}\nhistory: {}", opname, ops, id, decl, log.join("; ")), rp());
                        return;
                    }
                }
                if !requested.is_empty() {
                    r.count("prefix_related_requests", requested.len() as u64);
                }
                roundtrip(&m, &log, None, r, &rp);
            }
            Err(p) => r.violation(format!("C06:panic:idiom:{}", crate::util::panic_key(&p)), format!("a Builder call of an idiom (kind {}) panicked or failed: {}", idx % 5, p.msg), rp()),
        }
    });
    let _ = Operand::IdRef(0);
}
