//! C19 – storage tokens are stable handles to the appended values.

use crate::util::{catch, run_stage, Cfg, Json, Report, Rng};
use rspirv::sr::storage::{Storage, Token};

#[derive(Clone, Copy, Debug, PartialEq, Eq)]
enum Mode {
    /// equal iff same class (reflexive, key-only: serial is ignored)
    Class,
    /// equal to nothing, not even itself (NaN-like)
    Never,
    /// symmetric, reflexive, NOT transitive: equal iff the classes differ by at most one
    Near,
    /// wildcard: equal to every element that is not NaN-like (symmetric, not transitive)
    Wild,
    /// ASYMMETRIC: `a == b` iff a's class is at most b's (so `stored == argument` and `argument == stored`
    /// differ): the storage compares the stored value with the argument, in that order
    Below,
}

#[derive(Clone, Debug)]
struct El {
    serial: u64,
    class: u32,
    mode: Mode,
}
impl PartialEq for El {
    fn eq(&self, o: &El) -> bool {
        match (self.mode, o.mode) {
            (Mode::Never, _) | (_, Mode::Never) => false,
            (Mode::Below, _) | (_, Mode::Below) => self.class <= o.class,
            (Mode::Wild, _) | (_, Mode::Wild) => true,
            (Mode::Near, _) | (_, Mode::Near) => (self.class as i64 - o.class as i64).abs() <= 1,
            (Mode::Class, Mode::Class) => self.class == o.class,
        }
    }
}

/// Element shapes: the same scripted equality over differently built value types.
trait Elem: Clone + PartialEq {
    fn make(serial: u64, class: u32, mode: Mode) -> Self;
    fn serial(&self) -> u64;
    const SHAPE: &'static str;
}
fn rel(a: (u32, Mode), b: (u32, Mode)) -> bool {
    El { serial: 0, class: a.0, mode: a.1 } == El { serial: 0, class: b.0, mode: b.1 }
}
impl Elem for El {
    fn make(serial: u64, class: u32, mode: Mode) -> El {
        El { serial, class, mode }
    }
    fn serial(&self) -> u64 {
        self.serial
    }
    const SHAPE: &'static str = "struct";
}
/// An enum whose equality ignores the variant (equal values of different variants exist).
#[derive(Clone, Debug)]
enum ElEnum {
    A(u64, u32, Mode),
    B { class: u32, serial: u64, mode: Mode },
    C(Box<(u64, u32, Mode)>),
    D,
}
impl ElEnum {
    fn key(&self) -> (u32, Mode) {
        match self {
            ElEnum::A(_, c, m) => (*c, *m),
            ElEnum::B { class, mode, .. } => (*class, *mode),
            ElEnum::C(b) => (b.1, b.2),
            ElEnum::D => (0, Mode::Class),
        }
    }
}
impl PartialEq for ElEnum {
    fn eq(&self, o: &ElEnum) -> bool {
        rel(self.key(), o.key())
    }
}
impl Elem for ElEnum {
    fn make(serial: u64, class: u32, mode: Mode) -> ElEnum {
        // serials are unique, so equal values are spread over the variants; D is the serial-less (0, Class)
        match serial % 3 {
            0 => ElEnum::A(serial, class, mode),
            1 => ElEnum::B { class, serial, mode },
            _ => ElEnum::C(Box::new((serial, class, mode))),
        }
    }
    fn serial(&self) -> u64 {
        match self {
            ElEnum::A(s, ..) => *s,
            ElEnum::B { serial, .. } => *serial,
            ElEnum::C(b) => b.0,
            ElEnum::D => 0,
        }
    }
    const SHAPE: &'static str = "enum";
}
/// Heap-owning and large: moves, drops and reallocation of the storage matter.
#[derive(Clone, Debug)]
struct ElBig {
    pad: [u64; 24],
    name: String,
    inner: El,
}
impl PartialEq for ElBig {
    fn eq(&self, o: &ElBig) -> bool {
        self.inner == o.inner
    }
}
impl Elem for ElBig {
    fn make(serial: u64, class: u32, mode: Mode) -> ElBig {
        ElBig { pad: [serial; 24], name: format!("value {}", serial), inner: El { serial, class, mode } }
    }
    fn serial(&self) -> u64 {
        if self.pad.iter().all(|p| *p == self.inner.serial) && self.name == format!("value {}", self.inner.serial) {
            self.inner.serial
        } else {
            u64::MAX - 1
        }
    }
    const SHAPE: &'static str = "large heap-owning struct";
}

#[derive(Clone, Copy, Debug)]
enum OpK {
    Append,
    Fetch,
}

fn play(hist: &[(OpK, u32, Mode)], r: &mut Report, rp: &dyn Fn() -> Json, stage: &str) {
    play_opt(hist, r, rp, stage, false)
}

/// `sparse`: long histories – the lookups of all earlier tokens are compared at every 64th step and at the end
/// (plus the first, the last and one rotating earlier token at every step) instead of at every step.
fn play_opt(hist: &[(OpK, u32, Mode)], r: &mut Report, rp: &dyn Fn() -> Json, stage: &str, sparse: bool) {
    play_shape::<El>(hist, r, rp, stage, sparse)
}

fn play_shape<T: Elem>(hist: &[(OpK, u32, Mode)], r: &mut Report, rp: &dyn Fn() -> Json, stage: &str, sparse: bool) {
    let show_all = |h: &[(OpK, u32, Mode)]| h.iter().map(|(o, c, m)| format!("{}({}{})", if matches!(o, OpK::Append) { "append" } else { "fetch_or_append" }, c, match m { Mode::Never => "~nan", Mode::Near => "~near", Mode::Wild => "~any", Mode::Below => "~below", Mode::Class => "" })).collect::<Vec<_>>().join(" ");
    let show = || if hist.len() <= 320 { show_all(hist) } else { format!("{} ...({} more operations)... {}", show_all(&hist[..40]), hist.len() - 240, show_all(&hist[hist.len() - 200..])) };
    let mut st: Storage<T> = Storage::new();
    let mut model: Vec<T> = vec![];
    let mut tokens: Vec<Token<T>> = vec![];
    for (step, (op, class, mode)) in hist.iter().enumerate() {
        let el = T::make(step as u64 + 1, *class, *mode);
        let before = model.len();
        let (tok, expect_index, appended) = match op {
            OpK::Append => {
                let t = catch(|| st.append(el.clone()));
                (t, before, true)
            }
            OpK::Fetch => {
                let found = model.iter().position(|s| *s == el);
                let t = catch(|| st.fetch_or_append(el.clone()));
                (t, found.unwrap_or(before), found.is_none())
            }
        };
        let tok = match tok {
            Ok(t) => t,
            Err(p) => {
                r.violation(format!("C19:panic:{}", crate::util::panic_key(&p)), format!("history [{}] step {} panicked: {}", show(), step, p.msg), rp().set("history", show()));
                return;
            }
        };
        if appended {
            model.push(el.clone());
            tokens.push(tok);
        }
        if tok.index() as usize != expect_index {
            let rule = match (op, appended) {
                (OpK::Append, _) => "append-index",
                (OpK::Fetch, true) => "fetch-should-append",
                (OpK::Fetch, false) => "fetch-first-equal",
            };
            r.violation(format!("C19:{}:{}", stage, rule), format!("history [{}] over {} elements, step {}: returned token index {}, model expects {}", show(), T::SHAPE, step, tok.index(), expect_index), rp().set("history", show()));
            return;
        }
        // the returned token and every earlier token still yield their values
        let want_serial = model[expect_index].serial();
        match catch(|| st[tok].serial()) {
            Ok(s) if s == want_serial => {}
            other => {
                r.violation(format!("C19:{}:lookup-returned", stage), format!("history [{}] step {}: storage[token {}] has serial {:?}, expected {}", show(), step, tok.index(), other.ok(), want_serial), rp().set("history", show()));
                return;
            }
        }
        let last_step = step + 1 == hist.len();
        for (i, t) in tokens.iter().enumerate() {
            if sparse && !last_step && step % 64 != 0 && i != 0 && i + 1 != tokens.len() && i != step % tokens.len() {
                continue;
            }
            match catch(|| st[*t].serial()) {
                Ok(s) if s == model[i].serial() && t.index() as usize == i => {}
                other => {
                    r.violation(format!("C19:{}:earlier-token-changed", stage), format!("history [{}] after step {}: token #{} (index {}) yields serial {:?}, expected {}", show(), step, i, t.index(), other.ok(), model[i].serial()), rp().set("history", show()));
                    return;
                }
            }
        }
        r.count("operations", 1);
    }
    // an extra append reveals the real length (a fetch that wrongly appended would shift it)
    let probe = st.append(T::make(u64::MAX, 255, Mode::Never));
    if probe.index() as usize != model.len() {
        r.violation(format!("C19:{}:length", stage), format!("history [{}]: storage holds {} values, model {}", show(), probe.index(), model.len()), rp().set("history", show()));
    }
    r.nontrivial(format!("{:x}", crate::util::hash_str(&show()) % (1 << 18)));
}

fn gen_hist(rng: &mut Rng) -> Vec<(OpK, u32, Mode)> {
    let n = match rng.below(10) {
        0..=5 => rng.range(1, 20),
        6..=8 => rng.range(20, 80),
        _ => rng.range(80, 200),
    };
    let classes = rng.range(1, 8) as u32;
    // equality style of this history: 0 exact classes, 1 near (non-transitive), 2 exact + wildcards, 3 mixed
    let style = rng.below(5);
    (0..n)
        .map(|_| {
            let op = if rng.chance(1, 2) { OpK::Append } else { OpK::Fetch };
            let mode = match (style, rng.below(12)) {
                (_, 0) | (_, 1) => Mode::Never,
                (4, 2..=8) => Mode::Below,
                (1, _) => Mode::Near,
                (2, 2) | (2, 3) => Mode::Wild,
                (3, 2) => Mode::Wild,
                (3, 3..=6) => Mode::Near,
                _ => Mode::Class,
            };
            (op, rng.below(classes as usize) as u32, mode)
        })
        .collect()
}


/// Long histories: a short random prefix over the small classes, then a long run of filler appends (classes far
/// away from the small ones, spaced so that no equality style relates two fillers unless wanted), then a random
/// suffix over the small classes that also fetches filler values (first match deep inside the storage).
fn gen_long(rng: &mut Rng) -> Vec<(OpK, u32, Mode)> {
    let mut h: Vec<(OpK, u32, Mode)> = gen_hist(rng).into_iter().take(24).collect();
    let fill = match rng.below(8) {
        0 => rng.range(250, 262),
        1 => rng.range(1018, 1032),
        2 => rng.range(2040, 2056),
        3 => rng.range(4090, 4102),
        _ => rng.range(300, 3000),
    } as u32;
    let fmode = match rng.below(4) {
        0 => Mode::Near,
        _ => Mode::Class,
    };
    let step = if rng.chance(1, 4) { 1 } else { 3 };
    let dup_every = if rng.chance(1, 3) { rng.range(2, 40) as u32 } else { 0 };
    for i in 0..fill {
        let c = if dup_every != 0 && i % dup_every == dup_every - 1 { 1000 + (i / 2) * step } else { 1000 + i * step };
        h.push((OpK::Append, c, if rng.chance(1, 40) { Mode::Never } else { fmode }));
    }
    let classes = rng.range(1, 8) as u32;
    let style = rng.below(4);
    let tail = rng.range(8, 80);
    for _ in 0..tail {
        let op = if rng.chance(1, 3) { OpK::Append } else { OpK::Fetch };
        let mode = match (style, rng.below(12)) {
            (_, 0) => Mode::Never,
            (1, _) => Mode::Near,
            (2, 2) => Mode::Wild,
            (3, 3..=6) => Mode::Near,
            _ => Mode::Class,
        };
        let class = match rng.below(6) {
            0 => 1000 + rng.below(fill as usize * 3 + 3) as u32,
            1 => 1000 + (fill - 1 - rng.below(std::cmp::min(fill as usize, 4)) as u32) * step,
            _ => rng.below(classes as usize) as u32,
        };
        h.push((op, class, mode));
    }
    h
}

/// Zero-sized elements: a storage of these holds no memory, so histories of billions of appends are reachable.
#[derive(Clone, Copy, Debug)]
struct ZNever;
impl PartialEq for ZNever {
    fn eq(&self, _: &ZNever) -> bool {
        false
    }
}
#[derive(Clone, Copy, Debug)]
struct ZAlways;
impl PartialEq for ZAlways {
    fn eq(&self, _: &ZAlways) -> bool {
        true
    }
}

trait CapEl: Clone + PartialEq + Send + 'static {
    fn make(i: u64) -> Self;
    fn same(&self, i: u64) -> bool;
    /// index fetch_or_append(make(i)) must return when the storage holds the values make(0..count)
    fn first_equal(i: u64, count: u64) -> Option<u64>;
    const NAME: &'static str;
}
impl CapEl for () {
    fn make(_: u64) {}
    fn same(&self, _: u64) -> bool {
        true
    }
    fn first_equal(_: u64, count: u64) -> Option<u64> {
        if count > 0 { Some(0) } else { None }
    }
    const NAME: &'static str = "unit";
}
impl CapEl for ZNever {
    fn make(_: u64) -> Self {
        ZNever
    }
    fn same(&self, _: u64) -> bool {
        true
    }
    fn first_equal(_: u64, _: u64) -> Option<u64> {
        None
    }
    const NAME: &'static str = "zst-never-equal";
}
impl CapEl for ZAlways {
    fn make(_: u64) -> Self {
        ZAlways
    }
    fn same(&self, _: u64) -> bool {
        true
    }
    fn first_equal(_: u64, count: u64) -> Option<u64> {
        if count > 0 { Some(0) } else { None }
    }
    const NAME: &'static str = "zst-always-equal";
}
impl CapEl for u8 {
    fn make(i: u64) -> u8 {
        (i % 251) as u8
    }
    fn same(&self, i: u64) -> bool {
        *self == (i % 251) as u8
    }
    fn first_equal(i: u64, count: u64) -> Option<u64> {
        if i % 251 < count { Some(i % 251) } else { None }
    }
    const NAME: &'static str = "u8";
}

/// Append-dominated history of `limit` operations on one storage; the token of every append is compared with
/// the running count, tokens kept around every power of two (and the first/last ones) are looked up again at
/// the end, and fetch_or_append is called around every power of two. An append that would need an index that
/// `Token::index()` cannot represent can only return a token that was returned before (pigeonhole), so there
/// any returned token is a violation and a refusal (panic) with the storage left unchanged is the only
/// conforming outcome.
fn capacity<T: CapEl>(limit: u64, r: &mut Report, rp: &dyn Fn() -> Json) {
    let stage = "capacity";
    let mut st: Storage<T> = Storage::new();
    let mut count: u64 = 0;
    let mut kept: Vec<(u64, Token<T>)> = vec![];
    let mut refused = 0u64;
    let near_pow2 = |n: u64| -> bool {
        if n < 64 {
            return true;
        }
        let up = n.next_power_of_two();
        let down = up >> 1;
        up - n <= 4 || n - down <= 4
    };
    let max_index = u32::MAX as u64;
    while count + refused < limit {
        // a chunk of plain appends up to the next point of interest, under one catch_unwind
        let start = count;
        let mut end = std::cmp::min(limit - refused, (start | 0xffff) + 1);
        if end > start + 1 {
            let up = (start + 1).next_power_of_two();
            if up > start + 8 && up - 4 < end {
                end = up - 4;
            }
        }
        let special = near_pow2(start) || start + 8 >= limit;
        if special {
            end = start + 1;
        }
        let progress = std::cell::Cell::new(start);
        let bad = std::cell::Cell::new(None::<(u64, u32)>);
        let res = catch(|| {
            let mut n = start;
            while n < end {
                let t = st.append(T::make(n));
                if t.index() as u64 != n {
                    bad.set(Some((n, t.index())));
                    return None;
                }
                n += 1;
                progress.set(n);
                if special {
                    return Some(t);
                }
            }
            None
        });
        count = progress.get();
        if let Some((n, got)) = bad.get() {
            r.violation(format!("C19:{}:append-index", stage), format!("storage of {} elements: append #{} (0-based) returned token index {}, expected {}{}", T::NAME, n, got, n, if n > max_index { " (not representable: the token repeats an earlier one)" } else { "" }), rp().set("element", T::NAME).set("append", n));
            return;
        }
        match res {
            Ok(Some(t)) => kept.push((count - 1, t)),
            Ok(None) => {}
            Err(p) => {
                if count > max_index {
                    // refusal: nothing may have changed
                    refused += 1;
                    r.count("refused_appends_beyond_index_range", 1);
                    if refused > 8 {
                        break;
                    }
                } else {
                    r.violation(format!("C19:panic:{}", crate::util::panic_key(&p)), format!("storage of {} elements: append #{} panicked: {}", T::NAME, count, p.msg), rp().set("element", T::NAME).set("append", count));
                    return;
                }
            }
        }
        if special && count <= max_index + 1 {
            // fetch_or_append around the boundary
            let expect = T::first_equal(count, count);
            let must_append = expect.is_none();
            if must_append && count > max_index {
                continue;
            }
            match catch(|| st.fetch_or_append(T::make(count))) {
                Ok(t) => {
                    let want = expect.unwrap_or(count);
                    if t.index() as u64 != want {
                        r.violation(format!("C19:{}:{}", stage, if must_append { "fetch-should-append" } else { "fetch-first-equal" }), format!("storage of {} {} elements: fetch_or_append returned token index {}, expected {}", count, T::NAME, t.index(), want), rp().set("element", T::NAME).set("count", count));
                        return;
                    }
                    if must_append {
                        kept.push((count, t));
                        count += 1;
                    }
                    r.count("capacity_fetches", 1);
                }
                Err(p) => {
                    r.violation(format!("C19:panic:{}", crate::util::panic_key(&p)), format!("storage of {} {} elements: fetch_or_append panicked: {}", count, T::NAME, p.msg), rp().set("element", T::NAME).set("count", count));
                    return;
                }
            }
        }
    }
    // every kept token still yields its value and the tokens are pairwise distinct
    let mut seen = std::collections::HashSet::new();
    for (i, t) in &kept {
        if t.index() as u64 != *i || !seen.insert(t.index()) {
            r.violation(format!("C19:{}:earlier-token-changed", stage), format!("storage of {} elements: the token of append #{} has index {} at the end", T::NAME, i, t.index()), rp().set("element", T::NAME));
            return;
        }
        match catch(|| st[*t].same(*i)) {
            Ok(true) => {}
            other => {
                r.violation(format!("C19:{}:lookup-returned", stage), format!("storage of {} elements holding {} values: lookup of the token of append #{} gives {:?}", T::NAME, count, i, other.map_err(|p| p.msg)), rp().set("element", T::NAME));
                return;
            }
        }
    }
    r.count("capacity_appends", count);
    r.count("capacity_tokens_rechecked", kept.len() as u64);
    r.seen("capacity_storages", format!("{}:{} values", T::NAME, count));
    r.nontrivial(format!("capacity:{}:{}", T::NAME, count));
}

pub fn run(cfg: &Cfg, rep: &mut Report) {
    rep.rule = "histories of append / fetch_or_append over elements with scripted equality relations (class equality ignoring a unique serial; NaN-like elements equal to nothing; non-transitive 'near' equality; wildcards equal to everything; an ASYMMETRIC relation, the stored value being the left operand as in `stored == argument`) replayed against a Vec model; after every operation the returned token index, its lookup and the lookups of ALL earlier tokens are compared; exhaustive over all histories up to length 6 (quick: 4) of {append,fetch} x {3 classes, NaN-like, wildcard} under exact and under near equality, then random histories up to 200 operations, the same over other element shapes (an enum whose equality ignores the variant, a large heap-owning struct), long histories (300..4100 stored values, sparse re-checks of earlier tokens) and capacity histories (storages of zero-sized and one-byte elements grown past 2^24 values, thorough: past 2^32 values, every append's index compared, fetch_or_append and token re-lookups around every power of two). distinct_nontrivial = distinct histories (by length bucket and content hash)".into();
    let miri = cfg.mode == "miri";
    // exhaustive small histories: alphabet of 10 symbols = {append, fetch} x {class0, class1, class2, nan, wildcard},
    // played twice: with exact class equality and with the non-transitive "near" equality
    let maxlen: u32 = if miri { 3 } else if cfg.tier_thorough { 6 } else { 4 };
    let total: u64 = (1..=maxlen).map(|l| 10u64.pow(l)).sum();
    run_stage(cfg, rep, "exhaustive", total * 2, |idx, _rng, r| {
        let near = idx >= total;
        let mut rem = idx % total;
        let mut len = 1;
        while rem >= 10u64.pow(len) {
            rem -= 10u64.pow(len);
            len += 1;
        }
        let mut h = vec![];
        for _ in 0..len {
            let s = rem % 10;
            rem /= 10;
            let op = if s & 1 == 0 { OpK::Append } else { OpK::Fetch };
            let c = (s >> 1) as u32;
            h.push(match c {
                3 => (op, 0, Mode::Never),
                4 => (op, 0, Mode::Wild),
                c => (op, c, if near { Mode::Near } else { Mode::Class }),
            });
        }
        play(&h, r, &|| crate::util::replay_ref(cfg, "exhaustive", idx), "exhaustive");
    });
    let n = if miri { 40 } else { cfg.n(200_000, 40_000_000) };
    run_stage(cfg, rep, "random", n, |idx, rng, r| {
        let h = gen_hist(rng);
        if idx < 2 {
            r.sample(Json::obj().set("history", h.iter().take(12).map(|(o, c, m)| Json::from(format!("{:?}({},{:?})", o, c, m))).collect::<Vec<_>>()));
        }
        play(&h, r, &|| crate::util::replay_ref(cfg, "random", idx), "random");
    });
    let n = if miri { 4 } else { cfg.n(3_000, 200_000) };
    run_stage(cfg, rep, "long", n, |idx, rng, r| {
        let h = gen_long(rng);
        r.seen("long_history_lengths_by_256", format!("{:05}", h.len() / 256 * 256));
        play_opt(&h, r, &|| crate::util::replay_ref(cfg, "long", idx), "long", true);
    });
    // the same histories over other element shapes: an enum whose equality ignores the variant, a large
    // heap-owning struct
    let n = if miri { 12 } else { cfg.n(60_000, 4_000_000) };
    run_stage(cfg, rep, "shapes", n, |idx, rng, r| {
        let h = if idx % 16 == 15 && !miri { gen_long(rng) } else { gen_hist(rng) };
        let rp = || crate::util::replay_ref(cfg, "shapes", idx);
        if idx % 2 == 0 {
            play_shape::<ElEnum>(&h, r, &rp, "shapes", h.len() > 300);
        } else {
            play_shape::<ElBig>(&h, r, &rp, "shapes", h.len() > 300);
        }
        r.seen("element_shapes", if idx % 2 == 0 { ElEnum::SHAPE } else { ElBig::SHAPE });
    });
    if !miri {
        // capacity histories: quick up to just beyond 2^24 appends, thorough beyond 2^32 (zero-sized elements)
        let small: u64 = (1 << 24) + 4096;
        let big: u64 = if cfg.tier_thorough { (1u64 << 32) + 4096 } else { small };
        run_stage(cfg, rep, "capacity", 4, |idx, _rng, r| {
            let rp = || crate::util::replay_ref(cfg, "capacity", idx);
            match idx {
                0 => capacity::<()>(big, r, &rp),
                1 => capacity::<ZNever>(big, r, &rp),
                2 => capacity::<ZAlways>(big, r, &rp),
                _ => capacity::<u8>(small, r, &rp),
            }
        });
    }
    rep.exhaustive = false;
    rep.extra.push(("x_exhaustive_small_histories".into(), Json::obj().set("max_length", maxlen).set("histories", total * 2)));
}
