//! C19 – storage tokens are stable handles to the appended values.

use crate::util::{catch, run_stage, Cfg, Json, Report, Rng};
use rspirv::sr::storage::{Storage, Token};

#[derive(Clone, Copy, Debug, PartialEq, Eq)]
enum Mode {
    /// equal iff same class (reflexive, key-only: serial is ignored)
    Class,
    /// equal to nothing, not even itself (NaN-like)
    Never,
    /// symmetric, reflexive, NOT transitive: equal iff the classes differ by at most one
    Near,
    /// wildcard: equal to every element that is not NaN-like (symmetric, not transitive)
    Wild,
}

#[derive(Clone, Debug)]
struct El {
    serial: u64,
    class: u8,
    mode: Mode,
}
impl PartialEq for El {
    fn eq(&self, o: &El) -> bool {
        match (self.mode, o.mode) {
            (Mode::Never, _) | (_, Mode::Never) => false,
            (Mode::Wild, _) | (_, Mode::Wild) => true,
            (Mode::Near, _) | (_, Mode::Near) => (self.class as i32 - o.class as i32).abs() <= 1,
            (Mode::Class, Mode::Class) => self.class == o.class,
        }
    }
}

#[derive(Clone, Copy, Debug)]
enum OpK {
    Append,
    Fetch,
}

fn play(hist: &[(OpK, u8, Mode)], r: &mut Report, rp: &dyn Fn() -> Json, stage: &str) {
    let show = || hist.iter().map(|(o, c, m)| format!("{}({}{})", if matches!(o, OpK::Append) { "append" } else { "fetch_or_append" }, c, match m { Mode::Never => "~nan", Mode::Near => "~near", Mode::Wild => "~any", Mode::Class => "" })).collect::<Vec<_>>().join(" ");
    let mut st: Storage<El> = Storage::new();
    let mut model: Vec<El> = vec![];
    let mut tokens: Vec<Token<El>> = vec![];
    for (step, (op, class, mode)) in hist.iter().enumerate() {
        let el = El { serial: step as u64 + 1, class: *class, mode: *mode };
        let before = model.len();
        let (tok, expect_index, appended) = match op {
            OpK::Append => {
                let t = catch(|| st.append(el.clone()));
                (t, before, true)
            }
            OpK::Fetch => {
                let found = model.iter().position(|s| *s == el);
                let t = catch(|| st.fetch_or_append(el.clone()));
                (t, found.unwrap_or(before), found.is_none())
            }
        };
        let tok = match tok {
            Ok(t) => t,
            Err(p) => {
                r.violation(format!("C19:panic:{}", crate::util::panic_key(&p)), format!("history [{}] step {} panicked: {}", show(), step, p.msg), rp().set("history", show()));
                return;
            }
        };
        if appended {
            model.push(el.clone());
            tokens.push(tok);
        }
        if tok.index() as usize != expect_index {
            let rule = match (op, appended) {
                (OpK::Append, _) => "append-index",
                (OpK::Fetch, true) => "fetch-should-append",
                (OpK::Fetch, false) => "fetch-first-equal",
            };
            r.violation(format!("C19:{}:{}", stage, rule), format!("history [{}] step {}: returned token index {}, model expects {}", show(), step, tok.index(), expect_index), rp().set("history", show()));
            return;
        }
        // the returned token and every earlier token still yield their values
        let want_serial = model[expect_index].serial;
        match catch(|| st[tok].serial) {
            Ok(s) if s == want_serial => {}
            other => {
                r.violation(format!("C19:{}:lookup-returned", stage), format!("history [{}] step {}: storage[token {}] has serial {:?}, expected {}", show(), step, tok.index(), other.ok(), want_serial), rp().set("history", show()));
                return;
            }
        }
        for (i, t) in tokens.iter().enumerate() {
            match catch(|| st[*t].serial) {
                Ok(s) if s == model[i].serial && t.index() as usize == i => {}
                other => {
                    r.violation(format!("C19:{}:earlier-token-changed", stage), format!("history [{}] after step {}: token #{} (index {}) yields serial {:?}, expected {}", show(), step, i, t.index(), other.ok(), model[i].serial), rp().set("history", show()));
                    return;
                }
            }
        }
        r.count("operations", 1);
    }
    // an extra append reveals the real length (a fetch that wrongly appended would shift it)
    let probe = st.append(El { serial: u64::MAX, class: 255, mode: Mode::Never });
    if probe.index() as usize != model.len() {
        r.violation(format!("C19:{}:length", stage), format!("history [{}]: storage holds {} values, model {}", show(), probe.index(), model.len()), rp().set("history", show()));
    }
    r.nontrivial(format!("{:x}", crate::util::hash_str(&show()) % (1 << 18)));
}

fn gen_hist(rng: &mut Rng) -> Vec<(OpK, u8, Mode)> {
    let n = match rng.below(10) {
        0..=5 => rng.range(1, 20),
        6..=8 => rng.range(20, 80),
        _ => rng.range(80, 200),
    };
    let classes = rng.range(1, 8) as u8;
    // equality style of this history: 0 exact classes, 1 near (non-transitive), 2 exact + wildcards, 3 mixed
    let style = rng.below(4);
    (0..n)
        .map(|_| {
            let op = if rng.chance(1, 2) { OpK::Append } else { OpK::Fetch };
            let mode = match (style, rng.below(12)) {
                (_, 0) | (_, 1) => Mode::Never,
                (1, _) => Mode::Near,
                (2, 2) | (2, 3) => Mode::Wild,
                (3, 2) => Mode::Wild,
                (3, 3..=6) => Mode::Near,
                _ => Mode::Class,
            };
            (op, rng.below(classes as usize) as u8, mode)
        })
        .collect()
}

pub fn run(cfg: &Cfg, rep: &mut Report) {
    rep.rule = "histories of append / fetch_or_append over elements with scripted symmetric equality relations (class equality ignoring a unique serial; NaN-like elements equal to nothing; non-transitive 'near' equality; wildcards equal to everything) replayed against a Vec model; after every operation the returned token index, its lookup and the lookups of ALL earlier tokens are compared; exhaustive over all histories up to length 6 (quick: 4) of {append,fetch} x {3 classes, NaN-like, wildcard} under exact and under near equality, then random histories up to 200 operations. distinct_nontrivial = distinct histories (by length bucket and content hash)".into();
    let miri = cfg.mode == "miri";
    // exhaustive small histories: alphabet of 10 symbols = {append, fetch} x {class0, class1, class2, nan, wildcard},
    // played twice: with exact class equality and with the non-transitive "near" equality
    let maxlen: u32 = if miri { 3 } else if cfg.tier_thorough { 6 } else { 4 };
    let total: u64 = (1..=maxlen).map(|l| 10u64.pow(l)).sum();
    run_stage(cfg, rep, "exhaustive", total * 2, |idx, _rng, r| {
        let near = idx >= total;
        let mut rem = idx % total;
        let mut len = 1;
        while rem >= 10u64.pow(len) {
            rem -= 10u64.pow(len);
            len += 1;
        }
        let mut h = vec![];
        for _ in 0..len {
            let s = rem % 10;
            rem /= 10;
            let op = if s & 1 == 0 { OpK::Append } else { OpK::Fetch };
            let c = (s >> 1) as u8;
            h.push(match c {
                3 => (op, 0, Mode::Never),
                4 => (op, 0, Mode::Wild),
                c => (op, c, if near { Mode::Near } else { Mode::Class }),
            });
        }
        play(&h, r, &|| crate::util::replay_ref(cfg, "exhaustive", idx), "exhaustive");
    });
    let n = if miri { 40 } else { cfg.n(200_000, 40_000_000) };
    run_stage(cfg, rep, "random", n, |idx, rng, r| {
        let h = gen_hist(rng);
        if idx < 2 {
            r.sample(Json::obj().set("history", h.iter().take(12).map(|(o, c, m)| Json::from(format!("{:?}({},{:?})", o, c, m))).collect::<Vec<_>>()));
        }
        play(&h, r, &|| crate::util::replay_ref(cfg, "random", idx), "random");
    });
    rep.exhaustive = false;
    rep.extra.push(("x_exhaustive_small_histories".into(), Json::obj().set("max_length", maxlen).set("histories", total * 2)));
}
