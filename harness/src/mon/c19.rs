//! C19 – storage tokens are stable handles to the appended values.

use crate::util::{catch, run_stage, Cfg, Json, Report, Rng};
use rspirv::sr::storage::{Storage, Token};

#[derive(Clone, Copy, Debug, PartialEq, Eq)]
enum Mode {
    /// equal iff same class (reflexive, key-only: serial is ignored)
    Class,
    /// equal to nothing, not even itself (NaN-like)
    Never,
}

#[derive(Clone, Debug)]
struct El {
    serial: u64,
    class: u8,
    mode: Mode,
}
impl PartialEq for El {
    fn eq(&self, o: &El) -> bool {
        self.mode == Mode::Class && o.mode == Mode::Class && self.class == o.class
    }
}

#[derive(Clone, Copy, Debug)]
enum OpK {
    Append,
    Fetch,
}

fn play(hist: &[(OpK, u8, Mode)], r: &mut Report, rp: &dyn Fn() -> Json, stage: &str) {
    let show = || hist.iter().map(|(o, c, m)| format!("{}({}{})", if matches!(o, OpK::Append) { "append" } else { "fetch_or_append" }, c, if *m == Mode::Never { "~nan" } else { "" })).collect::<Vec<_>>().join(" ");
    let mut st: Storage<El> = Storage::new();
    let mut model: Vec<El> = vec![];
    let mut tokens: Vec<Token<El>> = vec![];
    for (step, (op, class, mode)) in hist.iter().enumerate() {
        let el = El { serial: step as u64 + 1, class: *class, mode: *mode };
        let before = model.len();
        let (tok, expect_index, appended) = match op {
            OpK::Append => {
                let t = catch(|| st.append(el.clone()));
                (t, before, true)
            }
            OpK::Fetch => {
                let found = model.iter().position(|s| *s == el);
                let t = catch(|| st.fetch_or_append(el.clone()));
                (t, found.unwrap_or(before), found.is_none())
            }
        };
        let tok = match tok {
            Ok(t) => t,
            Err(p) => {
                r.violation(format!("C19:panic:{}", crate::util::panic_key(&p)), format!("history [{}] step {} panicked: {}", show(), step, p.msg), rp().set("history", show()));
                return;
            }
        };
        if appended {
            model.push(el.clone());
            tokens.push(tok);
        }
        if tok.index() as usize != expect_index {
            let rule = match (op, appended) {
                (OpK::Append, _) => "append-index",
                (OpK::Fetch, true) => "fetch-should-append",
                (OpK::Fetch, false) => "fetch-first-equal",
            };
            r.violation(format!("C19:{}:{}", stage, rule), format!("history [{}] step {}: returned token index {}, model expects {}", show(), step, tok.index(), expect_index), rp().set("history", show()));
            return;
        }
        // the returned token and every earlier token still yield their values
        let want_serial = model[expect_index].serial;
        match catch(|| st[tok].serial) {
            Ok(s) if s == want_serial => {}
            other => {
                r.violation(format!("C19:{}:lookup-returned", stage), format!("history [{}] step {}: storage[token {}] has serial {:?}, expected {}", show(), step, tok.index(), other.ok(), want_serial), rp().set("history", show()));
                return;
            }
        }
        for (i, t) in tokens.iter().enumerate() {
            match catch(|| st[*t].serial) {
                Ok(s) if s == model[i].serial && t.index() as usize == i => {}
                other => {
                    r.violation(format!("C19:{}:earlier-token-changed", stage), format!("history [{}] after step {}: token #{} (index {}) yields serial {:?}, expected {}", show(), step, i, t.index(), other.ok(), model[i].serial), rp().set("history", show()));
                    return;
                }
            }
        }
        r.count("operations", 1);
    }
    // an extra append reveals the real length (a fetch that wrongly appended would shift it)
    let probe = st.append(El { serial: u64::MAX, class: 255, mode: Mode::Never });
    if probe.index() as usize != model.len() {
        r.violation(format!("C19:{}:length", stage), format!("history [{}]: storage holds {} values, model {}", show(), probe.index(), model.len()), rp().set("history", show()));
    }
    r.nontrivial(format!("{:x}", crate::util::hash_str(&show()) % (1 << 18)));
}

fn gen_hist(rng: &mut Rng) -> Vec<(OpK, u8, Mode)> {
    let n = match rng.below(10) {
        0..=5 => rng.range(1, 20),
        6..=8 => rng.range(20, 80),
        _ => rng.range(80, 200),
    };
    let classes = rng.range(1, 8) as u8;
    (0..n)
        .map(|_| {
            let op = if rng.chance(1, 2) { OpK::Append } else { OpK::Fetch };
            let mode = if rng.chance(1, 6) { Mode::Never } else { Mode::Class };
            (op, rng.below(classes as usize) as u8, mode)
        })
        .collect()
}

pub fn run(cfg: &Cfg, rep: &mut Report) {
    rep.rule = "histories of append / fetch_or_append over elements with scripted equality (class equality ignoring a unique serial; NaN-like elements equal to nothing) replayed against a Vec model; after every operation the returned token index, its lookup and the lookups of ALL earlier tokens are compared; exhaustive over all histories up to length 7 (quick: 5) of {append,fetch} x 3 classes plus NaN-like, then random histories up to 200 operations. distinct_nontrivial = distinct histories (by length bucket and content hash)".into();
    let miri = cfg.mode == "miri";
    // exhaustive small histories: alphabet of 8 symbols = {append, fetch} x {class0, class1, class2, nan}
    let maxlen: u32 = if miri { 3 } else if cfg.tier_thorough { 7 } else { 5 };
    let total: u64 = (1..=maxlen).map(|l| 8u64.pow(l)).sum();
    run_stage(cfg, rep, "exhaustive", total, |idx, _rng, r| {
        let mut rem = idx;
        let mut len = 1;
        while rem >= 8u64.pow(len) {
            rem -= 8u64.pow(len);
            len += 1;
        }
        let mut h = vec![];
        for _ in 0..len {
            let s = rem % 8;
            rem /= 8;
            let op = if s & 1 == 0 { OpK::Append } else { OpK::Fetch };
            let c = (s >> 1) as u8;
            h.push(if c == 3 { (op, 0, Mode::Never) } else { (op, c, Mode::Class) });
        }
        play(&h, r, &|| crate::util::replay_ref(cfg, "exhaustive", idx), "exhaustive");
    });
    let n = if miri { 40 } else { cfg.n(200_000, 40_000_000) };
    run_stage(cfg, rep, "random", n, |idx, rng, r| {
        let h = gen_hist(rng);
        if idx < 2 {
            r.sample(Json::obj().set("history", h.iter().take(12).map(|(o, c, m)| Json::from(format!("{:?}({},{:?})", o, c, m))).collect::<Vec<_>>()));
        }
        play(&h, r, &|| crate::util::replay_ref(cfg, "random", idx), "random");
    });
    rep.exhaustive = false;
    rep.extra.push(("x_exhaustive_small_histories".into(), Json::obj().set("max_length", maxlen).set("histories", total)));
}
