//! Builder clause of C16: the Builder ends a block for exactly the opcodes the specification
//! classifies as block-termination instructions.

use crate::bmodel::{method, method_sems, ArgCtx, MClass, RandArgs};
use crate::spec;
use crate::util::{catch, run_stage, Cfg, Report};
use rspirv::dr::Builder;
use rspirv::spirv::FunctionControl;

pub fn open_block_builder() -> Builder {
    let mut b = Builder::new();
    b.begin_function(900_001, Some(900_002), FunctionControl::NONE, 900_003).expect("begin_function on a fresh builder");
    b.begin_block(Some(900_004)).expect("begin_block");
    b
}

pub fn run(cfg: &Cfg, rep: &mut Report) {
    let sems = method_sems();
    let block_level: Vec<usize> = sems.iter().filter(|m| matches!(m.class, MClass::BlockInst | MClass::TerminatorFile)).map(|m| m.idx).collect();
    let bl = &block_level;
    run_stage(cfg, rep, "builder-terminators", block_level.len() as u64, |i, rng, r| {
        let sem = &sems[bl[i as usize]];
        let mi = method(sem.idx);
        let call = match mi.call {
            Some(c) => c,
            None => return,
        };
        let opname = match &sem.opname {
            Some(o) => o.clone(),
            None => {
                r.inconclusive.push(format!("Builder method {} does not map to an opcode by the naming rule", sem.name));
                return;
            }
        };
        let rp = || crate::util::replay_ref(cfg, "builder-terminators", i).set("method", sem.name);
        let mut b = open_block_builder();
        let ctx = ArgCtx { insert_end_only: true, ..Default::default() };
        let mut marker = 1000;
        let mut args = RandArgs::new(rng, &mut marker, &ctx, sem.name);
        let out = match catch(|| call(&mut b, &mut args)) {
            Ok(o) => o,
            Err(p) => {
                r.violation(format!("C16:builder-panic:{}", sem.name), format!("Builder::{} panicked with an open block: {}", sem.name, p.msg), rp());
                return;
            }
        };
        if out.is_err() {
            r.violation(format!("C16:builder-call-failed:{}", sem.name), format!("Builder::{} failed with an open block: {:?}", sem.name, out.err_name()), rp());
            return;
        }
        let closed = b.selected_block().is_none();
        let want = spec::is_block_terminator(&opname);
        if closed != want {
            let base = sem.name.strip_prefix("insert_").unwrap_or(sem.name);
            r.violation(format!("C16:builder-block-end:{}", base), format!("Builder::{} (Op{}) {} the block; Op{} {} a block-termination instruction", sem.name, opname, if closed { "ends" } else { "does not end" }, opname, if want { "is" } else { "is not" }), rp());
        }
        r.nontrivial(format!("builder:{}", sem.name));
    });
}
