//! Builder clause of C16 (filled in together with the generated Builder call stubs).
use crate::util::{Cfg, Report};
pub fn run(_cfg: &Cfg, _rep: &mut Report) {}
