//! Builder clause of C16: the Builder ends a block for exactly the opcodes the specification
//! classifies as block-termination instructions.

use crate::bmodel::{method, method_sems, ArgCtx, MClass, RandArgs, ReplayArgs};
use crate::spec;
use crate::util::{catch, run_stage, Cfg, Report, Rng};
use rspirv::dr::Builder;
use rspirv::spirv::FunctionControl;

pub fn open_block_builder() -> Builder {
    let mut b = Builder::new();
    b.begin_function(900_001, Some(900_002), FunctionControl::NONE, 900_003).expect("begin_function on a fresh builder");
    b.begin_block(Some(900_004)).expect("begin_block");
    b
}

pub fn run(cfg: &Cfg, rep: &mut Report) {
    let sems = method_sems();
    let block_level: Vec<usize> = sems.iter().filter(|m| matches!(m.class, MClass::BlockInst | MClass::TerminatorFile)).map(|m| m.idx).collect();
    let bl = &block_level;
    run_stage(cfg, rep, "builder-terminators", block_level.len() as u64, |i, rng, r| {
        let sem = &sems[bl[i as usize]];
        let mi = method(sem.idx);
        let call = match mi.call {
            Some(c) => c,
            None => return,
        };
        let opname = match &sem.opname {
            Some(o) => o.clone(),
            None => {
                r.inconclusive.push(format!("Builder method {} does not map to an opcode by the naming rule", sem.name));
                return;
            }
        };
        let rp = || crate::util::replay_ref(cfg, "builder-terminators", i).set("method", sem.name);
        let mut b = open_block_builder();
        let ctx = ArgCtx { insert_end_only: true, ..Default::default() };
        let mut marker = 1000;
        let mut args = RandArgs::new(rng, &mut marker, &ctx, sem.name);
        let out = match catch(|| call(&mut b, &mut args)) {
            Ok(o) => o,
            Err(p) => {
                r.violation(format!("C16:builder-panic:{}", sem.name), format!("Builder::{} panicked with an open block: {}", sem.name, p.msg), rp());
                return;
            }
        };
        if out.is_err() {
            r.violation(format!("C16:builder-call-failed:{}", sem.name), format!("Builder::{} failed with an open block: {:?}", sem.name, out.err_name()), rp());
            return;
        }
        let closed = b.selected_block().is_none();
        let want = spec::is_block_terminator(&opname);
        if closed != want {
            let base = sem.name.strip_prefix("insert_").unwrap_or(sem.name);
            r.violation(format!("C16:builder-block-end:{}", base), format!("Builder::{} (Op{}) {} the block; Op{} {} a block-termination instruction", sem.name, opname, if closed { "ends" } else { "does not end" }, opname, if want { "is" } else { "is not" }), rp());
        }
        r.nontrivial(format!("builder:{}", sem.name));
    });
    // the same question in other Builder states than a fresh open block: non-empty blocks with any insertion
    // point, the same instruction already present, re-selected finished blocks, later blocks still open,
    // several functions
    let reps = cfg.n(2, 400);
    run_stage(cfg, rep, "builder-terminator-states", block_level.len() as u64 * N_STATES * reps, |i, rng, r| {
        let mi_idx = (i % block_level.len() as u64) as usize;
        let state = (i / block_level.len() as u64) % N_STATES;
        let sem = &sems[bl[mi_idx]];
        let call = match method(sem.idx).call {
            Some(c) => c,
            None => return,
        };
        let opname = match &sem.opname {
            Some(o) => o.clone(),
            None => return,
        };
        let rp = || crate::util::replay_ref(cfg, "builder-terminator-states", i).set("method", sem.name).set("state", state);
        let want = spec::is_block_terminator(&opname);
        let (mut b, what) = prepare(rng, state);
        let mut marker = 1000;
        let block_len = |b: &Builder| -> usize {
            let m = b.module_ref();
            match (b.selected_function(), b.selected_block()) {
                (Some(f), Some(k)) => m.functions[f].blocks[k].instructions.len(),
                _ => 0,
            }
        };
        // states 2 and 3: the method itself has been called before (identical / different arguments)
        let mut earlier: Option<Vec<crate::bmodel::Arg>> = None;
        if state == 2 || state == 3 {
            let sel = (b.selected_function(), b.selected_block());
            let ctx = ArgCtx { block_len: block_len(&b), ..Default::default() };
            let mut args = RandArgs::new(rng, &mut marker, &ctx, sem.name);
            match catch(|| call(&mut b, &mut args)) {
                Ok(o) if !o.is_err() => {}
                _ => return, // judged by the stage above
            }
            earlier = Some(args.trace.clone());
            if b.selected_block().is_none() {
                if b.select_block(sel.1).is_err() {
                    return;
                }
            }
        }
        let before = b.selected_block();
        if before.is_none() {
            r.inconclusive.push(format!("state {} ({}) leaves no block selected", state, what));
            return;
        }
        let ctx = ArgCtx { block_len: block_len(&b), ..Default::default() };
        let out = if let (2, Some(tr)) = (state, &earlier) {
            let mut args = ReplayArgs::new(tr);
            catch(|| call(&mut b, &mut args))
        } else {
            let mut args = RandArgs::new(rng, &mut marker, &ctx, sem.name);
            catch(|| call(&mut b, &mut args))
        };
        let out = match out {
            Ok(o) => o,
            Err(p) => {
                r.violation(format!("C16:builder-panic:{}", sem.name), format!("Builder::{} panicked in state '{}': {}", sem.name, what, p.msg), rp());
                return;
            }
        };
        if out.is_err() {
            r.violation(format!("C16:builder-call-failed:{}", sem.name), format!("Builder::{} failed in state '{}': {:?}", sem.name, what, out.err_name()), rp());
            return;
        }
        let after = b.selected_block();
        // an appended terminator is the last instruction of the block it ended
        if want && !sem.is_insert {
            let m = b.module_ref();
            let last = b.selected_function().and_then(|f| m.functions.get(f)).and_then(|f| f.blocks.get(before.unwrap())).and_then(|bl| bl.instructions.last()).map(|i| i.class.opname.to_string());
            if last.as_deref() != Some(opname.as_str()) {
                r.violation(format!("C16:builder-block-last:{}", sem.name), format!("Builder::{} (Op{}) in state '{}': the ended block's last instruction is {:?}", sem.name, opname, what, last), rp());
            }
        }
        let ok = if want { after.is_none() } else { after == before };
        if !ok {
            let base = sem.name.strip_prefix("insert_").unwrap_or(sem.name);
            r.violation(format!("C16:builder-block-end:{}", base), format!("Builder::{} (Op{}) in state '{}': selected block {:?} -> {:?}; Op{} {} a block-termination instruction", sem.name, opname, what, before, after, opname, if want { "is" } else { "is not" }), rp());
        }
        r.nontrivial(format!("builder-state{}:{}", state, sem.name));
        r.seen("builder_states", format!("{} {}", state, what));
    });
}

const N_STATES: u64 = 9;

/// A Builder with a selected block, in state number `state`.
fn prepare(rng: &mut Rng, state: u64) -> (Builder, &'static str) {
    let mut b = Builder::new();
    let void = b.type_void();
    let fty = b.type_function(void, vec![]);
    let filler = |b: &mut Builder, rng: &mut Rng| {
        for _ in 0..rng.range(1, 4) {
            let _ = b.undef(void, None);
        }
    };
    b.begin_function(void, None, FunctionControl::NONE, fty).expect("begin_function");
    match state {
        0 | 1 | 2 | 3 => {
            b.begin_block(None).expect("begin_block");
            if state != 0 || rng.chance(1, 2) {
                filler(&mut b, rng);
            }
            (b, ["open block", "non-empty open block", "the same call made before with identical arguments", "the same method called before"][state as usize])
        }
        4 => {
            // block 0 finished, block 1 left open, block 2 finished; block 0 selected again
            b.begin_block(None).unwrap();
            filler(&mut b, rng);
            b.ret().unwrap();
            b.begin_block(None).unwrap();
            filler(&mut b, rng);
            b.select_block(None).unwrap();
            b.begin_block(None).unwrap();
            b.ret().unwrap();
            b.select_block(Some(0)).unwrap();
            if rng.chance(1, 2) {
                let _ = b.pop_instruction();
            }
            (b, "finished block re-selected while a later block is still open")
        }
        5 => {
            for _ in 0..3 {
                b.begin_block(None).unwrap();
                filler(&mut b, rng);
                b.ret().unwrap();
            }
            b.select_block(Some(rng.below(3))).unwrap();
            (b, "finished block re-selected (all blocks finished)")
        }
        6 => {
            b.begin_block(None).unwrap();
            b.ret().unwrap();
            b.end_function().unwrap();
            b.begin_function(void, None, FunctionControl::NONE, fty).unwrap();
            b.begin_block(None).unwrap();
            filler(&mut b, rng);
            if rng.chance(1, 2) {
                b.select_function(Some(0)).unwrap();
                b.select_block(Some(0)).unwrap();
                (b, "block of an earlier, finished function re-selected")
            } else {
                (b, "open block in a second function")
            }
        }
        8 => {
            // structured control flow with line-debug info: merge instruction, line info, then the call
            b.begin_block(None).unwrap();
            filler(&mut b, rng);
            let (m, c) = (b.id(), b.id());
            if rng.chance(1, 2) {
                b.selection_merge(m, rspirv::spirv::SelectionControl::NONE).unwrap();
            } else {
                b.loop_merge(m, c, rspirv::spirv::LoopControl::NONE, vec![]).unwrap();
            }
            for _ in 0..rng.below(3) {
                if rng.chance(1, 3) {
                    b.no_line();
                } else {
                    b.line(void, 1, 1);
                }
            }
            (b, "block ending in a merge instruction followed by line info")
        }
        _ => {
            b.begin_block(None).unwrap();
            filler(&mut b, rng);
            match rng.below(3) {
                0 => b.kill().unwrap(),
                1 => b.unreachable().unwrap(),
                _ => b.ret().unwrap(),
            }
            b.select_block(Some(0)).unwrap();
            (b, "block ending in a terminator re-selected")
        }
    }
}
