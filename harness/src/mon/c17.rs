//! C17 – operand reflection agrees with the parser and the (frozen) grammar.

use crate::generated::decls;
use crate::gram::{self, db, kind_name, AInst, AOp, K, Q};
use crate::rs;
use crate::util::{catch, hex_words, run_stage, words_to_bytes, Cfg, Json, Report, Rng};
use rspirv::binary::Assemble;
use rspirv::dr::{self, Operand};
use std::collections::BTreeSet;

/// dr::Operand variant name the parser produces for a parameter of logical kind `k`.
fn parsed_variant(k: K) -> &'static str {
    match k {
        K::LiteralInteger | K::LiteralFloat => "LiteralBit32",
        K::LiteralString => "LiteralString",
        other => kind_name(other),
    }
}

/// Carrier instructions whose last logical operand has kind `k`: (opcode name, has result type + id,
/// operand words before the value). Every carrier is used plain and as the payload of OpSpecConstantOp
/// (whose operand loop is a separate code path of the parser).
fn carriers(k: K) -> Vec<(&'static str, bool, Vec<u32>)> {
    match k {
        K::Decoration => vec![("Decorate", false, vec![1]), ("MemberDecorate", false, vec![1, 0]), ("DecorateId", false, vec![1])],
        K::ExecutionMode => vec![("ExecutionMode", false, vec![1]), ("ExecutionModeId", false, vec![1])],
        K::ImageOperands => vec![("ImageSampleExplicitLod", true, vec![3, 4]), ("ImageSampleImplicitLod", true, vec![3, 4]), ("ImageFetch", true, vec![3, 4]), ("ImageRead", true, vec![3, 4]), ("ImageWrite", false, vec![1, 2, 3])],
        K::LoopControl => vec![("LoopMerge", false, vec![1, 2])],
        K::MemoryAccess => vec![("Store", false, vec![1, 2]), ("Load", true, vec![3])],
        K::TensorAddressingOperands => vec![("CooperativeMatrixStoreTensorNV", false, vec![1, 2, 3, 0])],
        _ => vec![],
    }
}

/// Observes what the parser consumes after value `v` of kind `k` in carrier number `ci` (plain when
/// `!wrapped`, else as OpSpecConstantOp payload): tries 0..=20 all-zero filler words and returns (accepted
/// filler counts, variant names delivered after the value for the smallest accepted count).
fn observe_parser(k: K, v: u32, ci: usize, wrapped: bool) -> Result<(Vec<usize>, Vec<String>), String> {
    let cs = carriers(k);
    let (opname, has_result, prefix) = cs.get(ci).ok_or("no carrier")?;
    let opcode = db().inst(opname).opcode;
    let mut accepted = vec![];
    let mut kinds: Option<Vec<String>> = None;
    for fill in 0..=20usize {
        let mut w = gram::header_varied(((decls::kind_class(k) as u64) << 40) ^ ((v as u64) << 3) ^ (ci as u64) << 1 ^ wrapped as u64, 100);
        let mut body: Vec<u32> = vec![];
        if wrapped {
            body.extend([90, 91, opcode as u32]);
        } else if *has_result {
            body.extend([90, 91]);
        }
        body.extend(prefix);
        body.push(v);
        body.extend(std::iter::repeat(0).take(fill));
        let first = (((1 + body.len()) as u32) << 16) | if wrapped { db().inst("SpecConstantOp").opcode as u32 } else { opcode as u32 };
        w.push(first);
        w.extend(body);
        let p = rs::parse_rec(&words_to_bytes(&w)).map_err(|p| format!("parser panicked: {}", p.msg))?;
        if p.result.is_ok() && p.rec.insts.len() == 1 {
            accepted.push(fill);
            if kinds.is_none() {
                let i = &p.rec.insts[0];
                let n_before = prefix.len() + wrapped as usize;
                kinds = Some(i.operands.iter().skip(n_before + 1).map(gram::dr_variant_name).collect());
            }
        }
    }
    // what follows a value must not depend on the header: the same instruction (smallest accepted filler count)
    // under every registered generator id with old / current / unknown tool versions and under several SPIR-V
    // versions must be accepted and deliver the same operand kinds
    if let (Some(fill), Some(base_kinds)) = (accepted.first().copied(), kinds.clone()) {
        let mut body: Vec<u32> = vec![];
        if wrapped {
            body.extend([90, 91, opcode as u32]);
        } else if *has_result {
            body.extend([90, 91]);
        }
        body.extend(prefix);
        body.push(v);
        body.extend(std::iter::repeat(0).take(fill));
        let first = (((1 + body.len()) as u32) << 16) | if wrapped { db().inst("SpecConstantOp").opcode as u32 } else { opcode as u32 };
        for tool in 0..=46u32 {
            for tv in [0u32, 1, 13, 14, 0xffff] {
                let version = [0x0001_0000u32, 0x0001_0600, 0x0001_0300, 0x0001_0700][((tool + tv) % 4) as usize];
                let mut w = gram::header(version, (tool << 16) | tv, 100);
                w.push(first);
                w.extend(&body);
                let p = rs::parse_rec(&words_to_bytes(&w)).map_err(|p| format!("parser panicked: {}", p.msg))?;
                let got: Option<Vec<String>> = if p.result.is_ok() && p.rec.insts.len() == 1 { Some(p.rec.insts[0].operands.iter().skip(prefix.len() + wrapped as usize + 1).map(gram::dr_variant_name).collect()) } else { None };
                if got.as_ref() != Some(&base_kinds) {
                    return Err(format!("header-dependent: under generator {:#x} / version {:#x} the parser delivers {:?} after the value, under another header {:?}", (tool << 16) | tv, version, got, base_kinds));
                }
            }
        }
    }
    Ok((accepted, kinds.unwrap_or_default()))
}

fn caps_of(o: &Operand) -> (Vec<String>, Vec<String>) {
    (o.required_capabilities().iter().map(|c| format!("{:?}", c)).collect(), o.required_extensions().iter().map(|s| s.to_string()).collect())
}

/// String payloads at the edges of the domain: empty, NULs (leading, interior, trailing), white space,
/// multi-byte characters, long strings.
fn hostile_string(rng: &mut Rng) -> String {
    const FIXED: &[&str] = &["", "\0", "main\0", "\0main", "a\0b", "main\0\0", " main ", "main ", "\n", "main\n", "\tmain", "\u{e9}", "\u{65e5}\u{672c}\u{8a9e}", "\u{feff}x", "x\r\n", "\"quoted\"", "back\\slash", "\u{1f600}", "abc", "abcd", "GLSL.std.450"];
    match rng.below(4) {
        0 => rng.pick(crate::geninst::STRING_POOL).to_string(),
        1 => rng.pick(FIXED).to_string(),
        2 => {
            const ALPHA: &[&str] = &["\0", " ", "\n", "\t", "a", "Z", "0", "\u{e9}", "\u{65e5}", "\u{1f600}", "\"", "\\", "%"];
            let n = rng.below(12);
            (0..n).map(|_| *rng.pick(ALPHA)).collect()
        }
        _ => {
            let n = match rng.below(3) {
                0 => rng.range(1, 9),
                1 => rng.range(60, 70),
                _ => rng.range(1000, 5000),
            };
            let mut s: String = (0..n).map(|i| (b'a' + (i % 26) as u8) as char).collect();
            if rng.chance(1, 2) {
                s.push('\0');
            }
            s
        }
    }
}

fn string_shape(s: &str) -> String {
    let mut v = vec![];
    if s.is_empty() {
        v.push("empty");
    }
    if s.starts_with('\0') {
        v.push("leading-nul");
    }
    if s.ends_with('\0') && !s.is_empty() {
        v.push("trailing-nul");
    }
    if s.trim_matches('\0').contains('\0') {
        v.push("interior-nul");
    }
    if s.trim() != s {
        v.push("outer-whitespace");
    }
    if !s.is_ascii() {
        v.push("multi-byte");
    }
    if s.len() >= 1000 {
        v.push("long");
    }
    if v.is_empty() {
        v.push("plain");
    }
    v.join("+")
}

pub fn run(cfg: &Cfg, rep: &mut Report) {
    rep.rule = "every enumerant of ExecutionMode and Decoration, every single bit and all subsets (<=16 declared bits; random above) of the parameterised masks: kinds the parser consumes after the value (observed through the unique accepted count of zero filler words and the delivered operands) vs additional_operands() vs the frozen parameter table and spec anchors; required capabilities/extensions of every enumerant and mask bit of every kind vs the frozen table; id_ref_any / id_ref_any_mut / From+unwrap round trips over all 64 operand variants. distinct_nontrivial = distinct (kind, value) pairs with a non-empty parameter list or capability list compared".into();
    rep.assumptions.push("the frozen reference (dumped from the pinned tree) equals the Khronos grammar of SDK 1.4.309.0; quantifiers of enumerant parameters cannot be compared with Khronos".into());
    rep.exhaustive = true;
    let d = db();
    let anchors = gram::parse_frozen(crate::mon::c08::ANCHORS).ok();

    // ---- (a) parameters: parser vs reflection vs frozen vs anchors
    let mut cases: Vec<(K, u32)> = vec![];
    for k in [K::ExecutionMode, K::Decoration] {
        for (_, v) in d.enum_values(k) {
            cases.push((k, *v));
        }
    }
    for k in [K::ImageOperands, K::LoopControl, K::MemoryAccess, K::TensorAddressingOperands] {
        let bits = d.mask_bits(k);
        cases.push((k, 0));
        for b in &bits {
            cases.push((k, *b));
        }
        cases.push((k, d.mask_all(k)));
        if bits.len() <= 16 && cfg.tier_thorough {
            for s in 0..(1u32 << bits.len()) {
                let v = bits.iter().enumerate().filter(|(i, _)| s & (1 << i) != 0).fold(0, |a, (_, b)| a | b);
                cases.push((k, v));
            }
        } else {
            let mut rng = Rng::new(cfg.seed ^ 0x17);
            for _ in 0..cfg.n(300, 300_000) {
                let v = bits.iter().filter(|_| rng.chance(1, 3)).fold(0, |a, b| a | b);
                cases.push((k, v));
            }
        }
    }
    // enumerants the LIVE enumeration declares beyond the frozen reference (a grammar update): they deviate from
    // the pinned grammar by definition, and for them reflection can only be compared with the parser
    let mut live_only: Vec<(K, u32, String)> = vec![];
    for k in [K::ExecutionMode, K::Decoration] {
        if let Some(e) = decls::ENUMS.iter().find(|e| e.name == kind_name(k)) {
            for (name, v) in e.variants {
                if !d.enum_declared(k, *v) {
                    live_only.push((k, *v, name.to_string()));
                }
            }
        }
    }
    let live_ref = &live_only;
    run_stage(cfg, rep, "live-enumerants", live_only.len() as u64, |idx, _rng, r| {
        let (k, v, name) = &live_ref[idx as usize];
        let rp = || crate::util::replay_ref(cfg, "live-enumerants", idx).set("kind", kind_name(*k)).set("value", *v);
        r.violation(format!("C17:reference-enumerant:{}:{}", kind_name(*k), v), format!("{}::{} = {} is declared by the live tree but not by the frozen reference (pinned grammar)", kind_name(*k), name, v), rp());
        if let Some(op) = decls::mk_enum_operand(*k, *v) {
            let refl: Vec<&str> = op.additional_operands().iter().map(|l| parsed_variant(l.kind)).collect();
            for ci in 0..carriers(*k).len() {
                if let Ok((accepted, parsed)) = observe_parser(*k, *v, ci, false) {
                    let pk: Vec<&str> = parsed.iter().map(|s| s.as_str()).collect();
                    if accepted.is_empty() || pk != refl {
                        r.violation(format!("C17:reflection-vs-parser:{}:{}", kind_name(*k), v), format!("{}::{} = {} in Op{}: additional_operands() = {:?}, parser consumed {:?} (accepted filler counts {:?})", kind_name(*k), name, v, carriers(*k)[ci].0, refl, parsed, accepted), rp());
                    }
                }
            }
        }
    });
    let cases_ref = &cases;
    run_stage(cfg, rep, "params", cases.len() as u64, |idx, _rng, r| {
        let (k, v) = cases_ref[idx as usize];
        let rp = || crate::util::replay_ref(cfg, "params", idx).set("kind", kind_name(k)).set("value", v);
        let is_mask = decls::kind_class(k) == 1;
        let key = format!("{}:{}", kind_name(k), if is_mask && v.count_ones() != 1 { "combination".to_string() } else { v.to_string() });
        let op = match decls::mk_enum_operand(k, v) {
            Some(o) => o,
            None => {
                r.violation(format!("C17:unrepresentable:{}", key), format!("{} value {} declared in the reference cannot be constructed", kind_name(k), v), rp());
                return;
            }
        };
        let refl = match catch(|| op.additional_operands()) {
            Ok(x) => x,
            Err(p) => {
                r.violation(format!("C17:panic:additional_operands:{}", key), p.msg, rp());
                return;
            }
        };
        let refl_kinds: Vec<&str> = refl.iter().map(|l| parsed_variant(l.kind)).collect();
        // reference (grammar) sequence: enumerant list / ascending-bit concatenation
        let want: Vec<(K, Q)> = d.params_seq(k, v);
        let want_kinds: Vec<&str> = want.iter().map(|(k, _)| parsed_variant(*k)).collect();
        let n_car = carriers(k).len();
        if n_car == 0 {
            r.inconclusive.push(format!("no carrier instruction for parameterised kind {}", kind_name(k)));
            return;
        }
        for obs in 0..n_car * 2 {
        let (ci, wrapped) = (obs / 2, obs % 2 == 1);
        let via = format!("{}Op{}", if wrapped { "OpSpecConstantOp wrapping " } else { "" }, carriers(k)[ci].0);
        let (accepted, parsed_kinds) = match observe_parser(k, v, ci, wrapped) {
            Ok(x) => x,
            Err(e) => {
                r.violation(format!("C17:{}:{}", if e.starts_with("header-dependent") { "parser-depends-on-header" } else { "parser-panic" }, key), format!("{} (in {})", e, via), rp());
                return;
            }
        };
        r.seen("parser_observed_through", via.clone());
        let sort = |v: &[&str]| {
            let mut s: Vec<String> = v.iter().map(|x| x.to_string()).collect();
            s.sort();
            s
        };
        let pk: Vec<&str> = parsed_kinds.iter().map(|s| s.as_str()).collect();
        let (a, b, c) = if is_mask { (sort(&refl_kinds), sort(&pk), sort(&want_kinds)) } else { (refl_kinds.iter().map(|s| s.to_string()).collect(), parsed_kinds.clone(), want_kinds.iter().map(|s| s.to_string()).collect()) };
        if accepted.is_empty() {
            r.violation(format!("C17:parser-rejects:{}", key), format!("parser accepts {} value {} with no number (0..20) of zero filler words (in {})", kind_name(k), v, via), rp());
        } else {
            if a != b {
                r.violation(format!("C17:reflection-vs-parser:{}", key), format!("{} value {} in {}: additional_operands() = {:?}, parser consumed {:?}", kind_name(k), v, via, refl_kinds, parsed_kinds), rp());
            }
            if b != c {
                r.violation(format!("C17:parser-vs-grammar:{}", key), format!("{} value {} in {}: parser consumed {:?}, grammar lists {:?}", kind_name(k), v, via, parsed_kinds, want_kinds), rp());
            }
            // for masks the binary order is ascending bit order: the parser must deliver exactly that sequence
            if is_mask && pk != want_kinds {
                r.violation(format!("C17:parser-order:{}", key), format!("{} value {:#x}: parser delivered {:?}, ascending-bit order of the grammar is {:?}", kind_name(k), v, parsed_kinds, want_kinds), rp());
            }
            // word-count agreement: all parameter kinds here are single-word when filled with zeros
            let words_expected: usize = want.len();
            let variadic = want.iter().any(|(_, q)| *q != Q::One);
            if !variadic && accepted != vec![words_expected] {
                r.violation(format!("C17:parser-wordcount:{}", key), format!("{} value {} in {}: parser accepts {:?} filler words, grammar needs exactly {}", kind_name(k), v, via, accepted, words_expected), rp());
            }
            if variadic {
                // The quantifier of an enumerant parameter (BankBitsINTEL's variadic literal list) is
                // outside C17's wording (it speaks of kinds); the parser's handling of it is judged by
                // C03. Only require that the single-parameter form is accepted.
                let required = want.iter().filter(|(_, q)| *q == Q::One).count();
                if !accepted.contains(&(required + 1)) && !accepted.contains(&required) {
                    r.violation(format!("C17:parser-wordcount:{}", key), format!("{} value {}: parser accepts {:?} filler words", kind_name(k), v, accepted), rp());
                }
                r.count("variadic_parameter_lists_not_judged_for_count", 1);
            }
        }
        if obs + 1 < n_car * 2 {
            continue;
        }
        if a != c {
            r.violation(format!("C17:reflection-vs-grammar:{}", key), format!("{} value {}: additional_operands() = {:?}, grammar lists {:?}", kind_name(k), v, refl_kinds, want_kinds), rp());
        }
        // quantifiers reported by reflection equal the frozen ones (drift)
        if !is_mask || v.count_ones() == 1 {
            let rq: Vec<(K, Q)> = refl.iter().map(|l| (l.kind, l.quantifier)).collect();
            if rq != want {
                r.violation(format!("C17:reference-params:{}", key), format!("{} value {}: additional_operands() = {:?}, frozen reference {:?}", kind_name(k), v, rq, want), rp());
            }
            if let Some(an) = &anchors {
                if let Some(ap) = an.params.get(&(k, v)) {
                    if &rq != ap {
                        r.violation(format!("C17:anchor-params:{}", key), format!("{} value {}: additional_operands() = {:?}, specification lists {:?}", kind_name(k), v, rq, ap), rp());
                    }
                    r.count("anchors_checked", 1);
                }
            }
        }
        if !want.is_empty() {
            r.nontrivial(format!("param:{}:{}", kind_name(k), v));
        }
        r.evaluations += 21;
        }
    });

    // ---- (b) capabilities / extensions
    let mut capcases: Vec<(K, u32)> = vec![];
    for (_, k) in decls::OPERAND_KINDS {
        match decls::kind_class(*k) {
            0 => capcases.extend(d.enum_values(*k).iter().map(|(_, v)| (*k, *v))),
            1 => {
                let bits = d.mask_bits(*k);
                capcases.push((*k, 0));
                capcases.extend(bits.iter().map(|b| (*k, *b)));
                let mut rng = Rng::new(cfg.seed ^ 0x1717);
                for _ in 0..40 {
                    capcases.push((*k, bits.iter().filter(|_| rng.chance(1, 2)).fold(0, |a, b| a | b)));
                }
            }
            _ => {}
        }
    }
    let capcases_ref = &capcases;
    run_stage(cfg, rep, "capabilities", capcases.len() as u64, |idx, _rng, r| {
        let (k, v) = capcases_ref[idx as usize];
        let rp = || crate::util::replay_ref(cfg, "capabilities", idx).set("kind", kind_name(k)).set("value", v);
        let op = match decls::mk_enum_operand(k, v) {
            Some(o) => o,
            None => return,
        };
        let (caps, exts) = match catch(|| caps_of(&op)) {
            Ok(x) => x,
            Err(p) => {
                r.violation(format!("C17:panic:required_capabilities:{}:{}", kind_name(k), v), p.msg, rp());
                return;
            }
        };
        let single = decls::kind_class(k) == 0 || v.count_ones() == 1;
        if single {
            let (wc, we) = d.caps.get(&(k, v)).cloned().unwrap_or_default();
            if caps != wc {
                r.violation(format!("C17:capabilities:{}:{}", kind_name(k), v), format!("{} value {}: required_capabilities() = {:?}, grammar lists {:?}", kind_name(k), v, caps, wc), rp());
            }
            if exts != we {
                r.violation(format!("C17:extensions:{}:{}", kind_name(k), v), format!("{} value {}: required_extensions() = {:?}, grammar lists {:?}", kind_name(k), v, exts, we), rp());
            }
            if !wc.is_empty() || !we.is_empty() {
                r.nontrivial(format!("cap:{}:{}", kind_name(k), v));
            }
            if let Some(an) = &anchors {
                if let Some((ac, _)) = an.caps.get(&(k, v)) {
                    if &caps != ac {
                        r.violation(format!("C17:anchor-capabilities:{}:{}", kind_name(k), v), format!("{} value {}: required_capabilities() = {:?}, specification lists {:?}", kind_name(k), v, caps, ac), rp());
                    }
                    r.count("anchors_checked", 1);
                }
            }
        } else {
            // a combination requires exactly the union of what its set bits require
            let mut wc = BTreeSet::new();
            let mut we = BTreeSet::new();
            for i in 0..32 {
                if v & (1 << i) != 0 {
                    if let Some((c, e)) = d.caps.get(&(k, 1 << i)) {
                        wc.extend(c.iter().cloned());
                        we.extend(e.iter().cloned());
                    }
                }
            }
            let gc: BTreeSet<String> = caps.into_iter().collect();
            let ge: BTreeSet<String> = exts.into_iter().collect();
            if gc != wc || ge != we {
                r.violation(format!("C17:capabilities-combination:{}", kind_name(k)), format!("{} value {:#x}: required capabilities/extensions {:?}/{:?}, union over set bits {:?}/{:?}", kind_name(k), v, gc, ge, wc, we), rp());
            }
        }
    });

    // ---- (c,d,e) id_ref_any, id_ref_any_mut, From/unwrap
    let n = cfg.n(64 * 200, 64 * 200_000);
    run_stage(cfg, rep, "operand-variants", n, |idx, rng, r| {
        let vi = (idx % decls::OPERAND_VARIANTS.len() as u64) as usize;
        let (vname, _payload_ty) = decls::OPERAND_VARIANTS[vi];
        let rp = || crate::util::replay_ref(cfg, "operand-variants", idx).set("variant", vname);
        let payload = rng.word();
        let kind = gram::kind_by_name(vname);
        let op: Operand = match vname {
            "IdRef" => Operand::IdRef(payload),
            "IdScope" => Operand::IdScope(payload),
            "IdMemorySemantics" => Operand::IdMemorySemantics(payload),
            "LiteralBit32" => Operand::LiteralBit32(payload),
            "LiteralBit64" => Operand::LiteralBit64(((payload as u64) << 32) | rng.word() as u64),
            "LiteralExtInstInteger" => Operand::LiteralExtInstInteger(payload),
            "LiteralSpecConstantOpInteger" => {
                let ops = d.enum_values(K::LiteralSpecConstantOpInteger);
                let _ = ops;
                let e = decls::ENUMS.iter().find(|e| e.name == "Op").unwrap();
                Operand::LiteralSpecConstantOpInteger(decls::op_by_value(e.variants[rng.below(e.variants.len())].1).unwrap())
            }
            "LiteralString" => Operand::LiteralString(hostile_string(rng)),
            _ => {
                let k = match kind {
                    Some(k) => k,
                    None => {
                        r.inconclusive.push(format!("operand variant {} has no operand kind", vname));
                        return;
                    }
                };
                let v = match decls::kind_class(k) {
                    0 => {
                        let vals = d.enum_values(k);
                        vals[rng.below(vals.len())].1
                    }
                    // every u32 is a value of a bit-mask payload type: declared subsets, arbitrary words,
                    // and a single undeclared bit on top of a declared subset
                    _ => match rng.below(4) {
                        0 | 1 => payload & d.mask_all(k),
                        2 => payload,
                        _ => {
                            let free = !d.mask_all(k);
                            let mut b = 1u32 << rng.below(32);
                            for _ in 0..32 {
                                if b & free != 0 {
                                    break;
                                }
                                b = b.rotate_left(1);
                            }
                            (payload & d.mask_all(k)) | (b & free)
                        }
                    },
                };
                if decls::kind_class(k) != 0 {
                    r.count(if v & !d.mask_all(k) != 0 { "mask_payloads_with_undeclared_bits" } else { "mask_payloads_declared_bits_only" }, 1);
                }
                match if decls::kind_class(k) == 0 { decls::mk_enum_operand(k, v) } else { decls::mk_mask_operand_retain(k, v) } {
                    Some(o) => o,
                    None => return,
                }
            }
        };
        let is_id = matches!(vname, "IdRef" | "IdScope" | "IdMemorySemantics");
        let got = op.id_ref_any();
        if got.is_some() != is_id {
            r.violation(format!("C17:id_ref_any:{}", vname), format!("{:?}.id_ref_any() = {:?}", op, got), rp());
        }
        if is_id && got != Some(payload) {
            r.violation(format!("C17:id_ref_any-value:{}", vname), format!("{:?}.id_ref_any() = {:?}", op, got), rp());
        }
        let mut m = op.clone();
        if m.id_ref_any_mut().is_some() != is_id {
            r.violation(format!("C17:id_ref_any_mut:{}", vname), format!("{:?}.id_ref_any_mut() presence differs from id kinds", op), rp());
        }
        // rewriting an id changes exactly the corresponding assembled word
        let before = vec![Operand::IdRef(11), op.clone(), Operand::LiteralBit32(12), Operand::IdScope(13)];
        let inst = dr::Instruction::new(rspirv::spirv::Op::Nop, None, None, before.clone());
        let w0 = inst.assemble();
        for pos in 0..before.len() {
            let mut i2 = inst.clone();
            let newid = 0xABCD_0000 | pos as u32;
            let had = match i2.operands[pos].id_ref_any_mut() {
                Some(x) => {
                    *x = newid;
                    true
                }
                None => false,
            };
            let w1 = i2.assemble();
            let diff: Vec<usize> = (0..w0.len().max(w1.len())).filter(|j| w0.get(*j) != w1.get(*j)).collect();
            if had {
                // word index of operand `pos`: 1 + words of preceding operands
                let at = 1 + before[..pos].iter().map(|o| o.assemble().len()).sum::<usize>();
                if diff != vec![at] || w1[at] != newid || i2.operands[pos].id_ref_any() != Some(newid) {
                    r.violation(format!("C17:id-rewrite:{}", gram::dr_variant_name(&before[pos])), format!("rewriting operand {} of {:?} changed words {:?} ({} -> {})", pos, before, diff, hex_words(&w0), hex_words(&w1)), rp());
                }
            } else if !diff.is_empty() {
                r.violation(format!("C17:id-rewrite-nonid:{}", gram::dr_variant_name(&before[pos])), format!("operand {} is not an id but assembling changed", pos), rp());
            }
        }
        // From + unwrap round trip
        match &op {
            Operand::LiteralBit32(v) => {
                if Operand::from(*v).unwrap_literal_bit32() != *v {
                    r.violation("C17:from-unwrap:LiteralBit32".to_string(), format!("round trip of {}", v), rp());
                }
            }
            Operand::LiteralBit64(v) => {
                if Operand::from(*v).unwrap_literal_bit64() != *v {
                    r.violation("C17:from-unwrap:LiteralBit64".to_string(), format!("round trip of {}", v), rp());
                }
            }
            Operand::LiteralString(s) => {
                r.seen("string_payload_shapes", string_shape(s));
                if Operand::from(s.clone()).unwrap_literal_string() != s || Operand::from(s.as_str()).unwrap_literal_string() != s || Operand::from(s.as_str()) != Operand::LiteralString(s.clone()) || Operand::from(s.clone()) != Operand::LiteralString(s.clone()) {
                    r.violation("C17:from-unwrap:LiteralString".to_string(), format!("round trip of {:?}", s), rp());
                }
            }
            Operand::LiteralSpecConstantOpInteger(o) => {
                if Operand::from(*o).unwrap_literal_spec_constant_op_integer() != *o {
                    r.violation("C17:from-unwrap:LiteralSpecConstantOpInteger".to_string(), format!("round trip of {:?}", o), rp());
                }
            }
            Operand::IdRef(v) => {
                if op.unwrap_id_ref() != *v {
                    r.violation("C17:unwrap:IdRef".to_string(), String::new(), rp());
                }
            }
            Operand::IdScope(v) => {
                if op.unwrap_id_scope() != *v {
                    r.violation("C17:unwrap:IdScope".to_string(), String::new(), rp());
                }
            }
            Operand::IdMemorySemantics(v) => {
                if op.unwrap_id_memory_semantics() != *v {
                    r.violation("C17:unwrap:IdMemorySemantics".to_string(), String::new(), rp());
                }
            }
            Operand::LiteralExtInstInteger(v) => {
                if op.unwrap_literal_ext_inst_integer() != *v {
                    r.violation("C17:unwrap:LiteralExtInstInteger".to_string(), String::new(), rp());
                }
            }
            other => {
                if let Some((k, v)) = decls::enum_operand_value(other) {
                    if let Some((_, f)) = decls::FROM_UNWRAP.iter().find(|(n, _)| *n == kind_name(k)) {
                        match catch(|| f(v)) {
                            Ok(Some(true)) => {}
                            Ok(None) => {}
                            bad => r.violation(format!("C17:from-unwrap:{}", kind_name(k)), format!("unwrap(From::from({} value {})) -> {:?}", kind_name(k), v, bad.map_err(|p| p.msg)), rp()),
                        }
                    } else {
                        r.violation(format!("C17:from-unwrap-missing:{}", kind_name(k)), "no From/unwrap pair generated".to_string(), rp());
                    }
                }
            }
        }
        r.nontrivial(format!("variant:{}", vname));
    });
    let _ = AInst::new(0, None, None, vec![AOp::id(0)]);
    rep.sample(Json::obj().set("case", "Decoration LinkageAttributes (41)").set("grammar_params", "LiteralString, LinkageType").set("observation", "OpDecorate %1 41 + k zero words accepted only for k=2; delivered [LiteralString, LinkageType]"));
    rep.sample(Json::obj().set("case", "ImageOperands Bias|Grad").set("grammar_params", "IdRef, IdRef, IdRef").set("observation", "OpImageSampleExplicitLod accepted only with 3 parameter words"));
}
