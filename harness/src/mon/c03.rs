//! C03 – the parser accepts exactly the grammar and reports the first malformed instruction.

use crate::geninst::{Form, Gen, LitStyle};
use crate::genmod::{self, ModOpts};
use crate::gram::AInst;
use crate::mutate::{self, Base};
use crate::refparse::{refparse, Fault, RefOutcome, RefParse};
use crate::rs;
use crate::util::{hex_bytes, panic_key, run_stage, words_to_bytes, Cfg, Json, Report, Rng};

pub struct BaseMod {
    pub words: Vec<u32>,
    pub starts: Vec<usize>,
    pub insts: Vec<AInst>,
}

pub fn gen_base(rng: &mut Rng, must: Vec<usize>, small: bool) -> BaseMod {
    let mut gen = Gen::with_id_policy(rng);
    gen.lit = if rng.chance(1, 2) { LitStyle::Random } else { LitStyle::Marker };
    let o = ModOpts { max_functions: if small { 1 } else { 2 }, max_blocks: 2, max_block_insts: if small { 2 } else { 4 }, max_per_section: if small { 1 } else { 2 }, layout_order: rng.chance(2, 3), must, memory_model: rng.chance(3, 4) };
    let sk = genmod::skeleton(rng, &o);
    let insts = genmod::instantiate(rng, &mut gen, &sk, Form::Random);
    let (words, _mask, starts) = genmod::encode_module(genmod::random_version(rng), rng.u32(), gen.next_id, &insts, None);
    BaseMod { words, starts, insts }
}

/// Compares rspirv's parse of `bytes` with the reference parser. Returns the coverage key.
pub fn compare(bytes: &[u8], label: &str, r: &mut Report, rp: &dyn Fn() -> Json, prop: &str) -> Option<String> {
    let reference: RefParse = refparse(bytes);
    let fail = |r: &mut Report, rule: String, msg: String| {
        // a disagreement on an input that exercises a variadic enumerant parameter (rspirv's parser
        // reads exactly one parameter there) is attributed to that known cause, keyed on the enumerant
        let rule = match reference.variadic_params.first() {
            Some(v) if !rule.starts_with("panic") && rule != "non-termination" => format!("param-quantifier:{}", v),
            _ => rule,
        };
        r.violation(format!("{}:{}", prop, rule), format!("{}\nmutation: {}\nreference: {:?}\nbinary[{}]: {}", msg, label, reference.outcome, bytes.len(), hex_bytes(&bytes[..bytes.len().min(400)])), rp().set("binary", hex_bytes(bytes)).set("mutation", label));
    };
    let p = match rs::parse_rec(bytes) {
        Ok(p) => p,
        Err(p) => {
            let rule = if p.budget { "non-termination".to_string() } else { format!("panic:{}", panic_key(&p)) };
            fail(r, rule, format!("parser panicked: {} at {}", p.msg, p.loc));
            return None;
        }
    };
    // the same fault through the loader: a parse error is reported as that parse error unless one of the
    // instructions delivered before it already made the loader object (a consumer error raised anywhere else -
    // e.g. at a finalize that must not happen - would hide which instruction is malformed)
    if let Err(pe) = &p.result {
        if !matches!(pe, rspirv::binary::ParseState::ConsumerError(_) | rspirv::binary::ParseState::ConsumerStopRequested) {
            if let Ok(lr) = crate::util::catch(|| rspirv::dr::load_bytes(bytes)) {
                match lr {
                    Ok(_) => {
                        fail(r, "loader-accepts-after-parse-error".into(), format!("parse_bytes reports {:?}, load_bytes returns a module", pe));
                        return None;
                    }
                    Err(rspirv::binary::ParseState::ConsumerError(ce)) => {
                        use rspirv::binary::Consumer;
                        let mut l = rspirv::dr::Loader::new();
                        let mut objected = !matches!(l.initialize(), rspirv::binary::ParseAction::Continue);
                        if let Some(h) = &p.rec.header {
                            objected |= !matches!(l.consume_header(h.clone()), rspirv::binary::ParseAction::Continue);
                        }
                        for i in &p.rec.insts {
                            if objected {
                                break;
                            }
                            objected |= !matches!(l.consume_instruction(i.clone()), rspirv::binary::ParseAction::Continue);
                        }
                        if !objected {
                            fail(r, "loader-error-hides-parse-error".into(), format!("parse_bytes reports {:?}; load_bytes reports the consumer error `{}` although the loader accepts every instruction delivered before the fault", pe, ce));
                            return None;
                        }
                    }
                    Err(le) => {
                        if rs::state_name(&le) != rs::state_name(pe) {
                            fail(r, "loader-reports-other-parse-error".into(), format!("parse_bytes reports {:?}, load_bytes reports {:?}", pe, le));
                            return None;
                        }
                    }
                }
            }
        }
    }
    // protocol shape of the recording (details are C14's business)
    // header
    match (&reference.header, &p.rec.header) {
        (Some((ver, _gen, bound)), Some(h)) => {
            // the header carries the version as major.minor (bytes 2 and 1 of the version word)
            if (h.version >> 8) & 0xffff != (*ver >> 8) & 0xffff || h.bound != *bound {
                fail(r, "header-fields".into(), format!("consumer received version {:#x} bound {}, stream has version {:#x} bound {}", h.version, h.bound, ver, bound));
                return None;
            }
        }
        (None, None) => {}
        (Some(_), None) => {
            fail(r, "header-not-delivered".into(), "a complete header with the right magic was not handed to the consumer".into());
            return None;
        }
        (None, Some(_)) => {
            fail(r, "header-delivered".into(), "a header was handed to the consumer although the stream has no valid header".into());
            return None;
        }
    }
    // delivered prefix
    let (judged_prefix, full) = match &reference.outcome {
        RefOutcome::Unspecified { index, .. } => (index - 1, false),
        _ => (reference.insts.len(), true),
    };
    if p.rec.insts.len() < judged_prefix || (full && p.rec.insts.len() != judged_prefix) {
        fail(r, "prefix-length".into(), format!("consumer received {} instruction(s); {} precede the first malformed one", p.rec.insts.len(), judged_prefix));
        return None;
    }
    for k in 0..judged_prefix {
        let want = reference.insts[k].to_dr();
        if want.as_ref() != Some(&p.rec.insts[k]) {
            fail(r, format!("prefix-content:{}", reference.insts[k].opname()), format!("instruction #{} delivered as {}\n                     stream has {}", k + 1, rs::show_inst(&p.rec.insts[k]), reference.insts[k].show()));
            return None;
        }
    }
    // outcome
    match (&reference.outcome, &p.result) {
        (RefOutcome::Unspecified { reason, .. }, _) => {
            r.count("unspecified_inputs", 1);
            Some(format!("unspecified:{}", reason.split(' ').next().unwrap_or("")))
        }
        (RefOutcome::Accept, Ok(())) => Some("accept".into()),
        (RefOutcome::Accept, Err(e)) => {
            if reference.trailing_bytes {
                r.count("trailing_bytes_not_judged", 1);
                return Some("trailing-bytes".into());
            }
            fail(r, format!("rejects-conforming:{}", rs::state_name(e)), format!("a grammar-conforming binary is rejected: {:?}", e));
            None
        }
        (RefOutcome::Reject(rj), Ok(())) => {
            fail(r, format!("accepts-malformed:{:?}", rj.classes.first()), format!("binary accepted although instruction #{} is malformed: {}", rj.index, rj.note));
            None
        }
        (RefOutcome::Reject(rj), Err(e)) => {
            let (class, off, idx) = match rs::classify_state(e) {
                Some(c) => c,
                None => {
                    fail(r, format!("foreign-error:{}", rs::state_name(e)), format!("parse ended with {:?}", e));
                    return None;
                }
            };
            if !rj.classes.contains(&class) {
                fail(r, format!("fault-class:{:?}-reported-as-{}", rj.classes.first(), rs::state_name(e)), format!("instruction #{} ({}): admissible fault classes {:?}, rspirv reports {:?}", rj.index, rj.note, rj.classes, e));
                return None;
            }
            if let Some(i) = idx {
                if i != rj.index {
                    fail(r, format!("instruction-number:{}", rs::state_name(e)), format!("error carries instruction number {}, the first malformed instruction is #{}", i, rj.index));
                    return None;
                }
            }
            if let Some(o) = off {
                if rj.index > 0 && (o < rj.start || o > rj.extent_end) {
                    fail(r, format!("offset:{}", rs::state_name(e)), format!("error carries byte offset {}, instruction #{} occupies [{}, {}]", o, rj.index, rj.start, rj.extent_end));
                    return None;
                }
                if rj.index == 0 && o > 20 {
                    fail(r, format!("offset:{}", rs::state_name(e)), format!("header error carries byte offset {}", o));
                    return None;
                }
            }
            Some(format!("reject:{:?}:{}", class, rs::state_name(e)))
        }
    }
}

/// Hand-picked inputs: every class of previously found defect plus the C04 crash corpus.
pub fn directed_inputs() -> Vec<(String, Vec<u8>)> {
    let d = crate::gram::db();
    let h = crate::gram::header(0x0001_0600, 0, 100);
    let mk = |ws: &[u32]| {
        let mut w = h.clone();
        w.extend_from_slice(ws);
        words_to_bytes(&w)
    };
    let mut out = crate::mon::c04::directed_inputs();
    let dec = d.inst("Decorate").opcode as u32;
    // Decoration BankBitsINTEL (5835) with 0, 1, 2, 3 literals: the grammar lists a variadic literal
    for n in 0..4u32 {
        let mut ws = vec![((3 + n) << 16) | dec, 7, 5835];
        ws.extend(1..=n);
        out.push((format!("OpDecorate BankBitsINTEL with {} literal(s)", n), mk(&ws)));
    }
    // spec constant payloads with optional / variadic operands
    let sc = 52u32;
    let shuffle = d.inst("VectorShuffle").opcode as u32;
    let extract = d.inst("CompositeExtract").opcode as u32;
    let chain = d.inst("AccessChain").opcode as u32;
    for n in 0..5u32 {
        let mut ws = vec![((6 + n) << 16) | sc, 1, 2, shuffle, 3, 4];
        ws.extend(0..n);
        out.push((format!("OpSpecConstantOp VectorShuffle with {} component(s)", n), mk(&ws)));
        let mut ws = vec![((5 + n) << 16) | sc, 1, 2, extract, 3];
        ws.extend(0..n);
        out.push((format!("OpSpecConstantOp CompositeExtract with {} index(es)", n), mk(&ws)));
        let mut ws = vec![((5 + n) << 16) | sc, 1, 2, chain, 3];
        ws.extend(10..10 + n);
        out.push((format!("OpSpecConstantOp AccessChain with {} index(es)", n), mk(&ws)));
    }
    for hi in [1u32, 2, 0x8000, 0xffff] {
        out.push((format!("OpSpecConstantOp payload opcode {:#x}", (hi << 16) | 126), mk(&[(5 << 16) | sc, 1, 2, (hi << 16) | 126, 3])));
    }
    // every module-level execution mode / decoration opcode with a parameterised enumerant
    out.push(("OpExecutionModeId LocalSizeId".into(), mk(&[(6 << 16) | 331, 1, 38, 2, 3, 4])));
    out.push(("OpExecutionMode LocalSize missing one literal".into(), mk(&[(5 << 16) | 16, 1, 17, 2, 3])));
    out.push(("OpDecorate LinkageAttributes".into(), mk(&[(5 << 16) | dec, 1, 41, 0x0061_6263, 0])));
    out.push(("OpDecorate LinkageAttributes unterminated name".into(), mk(&[(5 << 16) | dec, 1, 41, 0x6461_6263, 0])));
    out
}

pub fn run(cfg: &Cfg, rep: &mut Report) {
    rep.rule = "well-formed modules from the table-directed generator (every opcode over the run) and 16 structured mutators (truncation at any byte, word-count corruption, unknown/other opcode, undeclared enumerant or mask bit, dropped/inserted operand word, header damage, trailing bytes, byte noise, string damage, word substitution, spec-constant payloads, constants of odd types, stacked) placed at a random instruction; every binary parsed with a recording consumer and compared with an independent reference acceptor: acceptance, delivered header and prefix, fault class, instruction number, byte offset inside the declared extent. distinct_nontrivial = distinct (reference verdict class, rspirv state, mutator) triples".into();
    rep.assumptions.push("grammar = frozen reference table and parameter lists; 1..3 trailing bytes that form no word are not judged; spec-constant payloads with context-dependent operands are unspecified".into());
    let d = crate::gram::db();
    let n_ops = d.insts.len() as u64;
    // ---- well-formed: every opcode at least once
    run_stage(cfg, rep, "wellformed", cfg.n(n_ops * 4, n_ops * 400), |idx, rng, r| {
        let op = (idx % n_ops) as usize;
        let b = gen_base(rng, vec![op], true);
        let bytes = words_to_bytes(&b.words);
        let rp = || crate::util::replay_ref(cfg, "wellformed", idx);
        if let Some(k) = compare(&bytes, "none", r, &rp, "C03") {
            r.nontrivial(format!("wellformed:{}", k));
            r.seen("opcodes_in_wellformed", d.insts[op].opname.clone());
        }
        r.count("instructions_compared", b.insts.len() as u64);
    });
    // ---- directed inputs: regression cases of repaired defects and of the known finding, so that
    // they are exercised deterministically on every run
    let directed = directed_inputs();
    let directed_ref = &directed;
    run_stage(cfg, rep, "directed", directed.len() as u64, |idx, _rng, r| {
        let (label, bytes) = &directed_ref[idx as usize];
        let rp = || crate::util::replay_ref(cfg, "directed", idx);
        if let Some(k) = compare(bytes, label, r, &rp, "C03") {
            r.nontrivial(format!("directed:{}:{}", label, k));
        }
    });
    // ---- boundary-value modules, plain and mutated
    // type-width histories (C10's generator: numeric type declarations, value definitions, literal consumers,
    // ids used before their definition): acceptance and delivered content by the reference parser
    run_stage(cfg, rep, "width-histories", cfg.n(20_000, 3_000_000), |idx, rng, r| {
        let h = crate::mon::c10::gen_history_ids(rng, 100, if idx % 3 == 0 { Some(idx | 1) } else { None });
        let mut w = crate::gram::header_varied(idx, 1 << 22);
        for i in &h.insts {
            w.extend(i.enc());
        }
        let bytes = words_to_bytes(&w);
        let rp = || crate::util::replay_ref(cfg, "width-histories", idx);
        if let Some(k) = compare(&bytes, "type-width history", r, &rp, "C03") {
            r.nontrivial(format!("hist:{}", k));
        }
    });
    run_stage(cfg, rep, "scale", cfg.n(crate::scale::N_VARIANTS * 16, crate::scale::N_VARIANTS * 600), |idx, rng, r| {
        let (label, insts) = crate::scale::scale_module(rng, idx % crate::scale::N_VARIANTS);
        let (words, _m, starts) = genmod::encode_module(0x0001_0600, 0, 1 << 22, &insts, None);
        let rp = || crate::util::replay_ref(cfg, "scale", idx).set("label", label.clone());
        let (bytes, l2) = if idx % 3 == 2 && insts.len() < 2000 {
            let m = rng.below(mutate::N_MUTATORS);
            mutate::mutate(rng, &Base { words: &words, starts: &starts, insts: &insts }, m)
        } else {
            (words_to_bytes(&words), "none".to_string())
        };
        if let Some(k) = compare(&bytes, &format!("{} / {}", label, l2), r, &rp, "C03") {
            r.nontrivial(format!("scale:{}:{}", label, k));
        }
    });
    // ---- mutants
    let n = cfg.n(250_000, 40_000_000);
    run_stage(cfg, rep, "mutants", n, |idx, rng, r| {
        let must = if rng.chance(1, 2) { vec![rng.below(d.insts.len())] } else { vec![] };
        let small = rng.chance(2, 3);
        let b = gen_base(rng, must, small);
        let m = (idx % mutate::N_MUTATORS as u64) as usize;
        let base = Base { words: &b.words, starts: &b.starts, insts: &b.insts };
        let (bytes, label) = mutate::mutate(rng, &base, m);
        let rp = || crate::util::replay_ref(cfg, "mutants", idx);
        if idx < 3 {
            r.sample(Json::obj().set("mutation", label.clone()).set("binary_len", bytes.len()).set("reference", format!("{:?}", refparse(&bytes).outcome)));
        }
        if let Some(k) = compare(&bytes, &label, r, &rp, "C03") {
            r.nontrivial(format!("m{}:{}", m, k));
        }
    });
    // ---- exhaustive truncation of small modules at every byte offset
    run_stage(cfg, rep, "truncation", cfg.n(800, 60_000), |idx, rng, r| {
        let must_op = rng.below(d.insts.len());
        let b = gen_base(rng, vec![must_op], true);
        let bytes = words_to_bytes(&b.words);
        let rp = || crate::util::replay_ref(cfg, "truncation", idx);
        for cut in 0..bytes.len() {
            if let Some(k) = compare(&bytes[..cut], &format!("truncate@{}", cut), r, &rp, "C03") {
                r.nontrivial(format!("trunc:{}", k));
            }
            r.evaluations += 1;
        }
    });
    let _ = Fault::Missing;
}
