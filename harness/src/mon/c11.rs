//! C11 – the decoder consumes exactly what it returns and honours limits.
//!
//! Decoder model written from the property statement; where the statement leaves the state after a
//! failed request open, the model re-synchronises from the observed offset (checking it against the
//! admissible set) and keeps the limit as an interval.

use crate::generated::decls;
use crate::util::{catch, hex_bytes, panic_key, run_stage, Cfg, Json, Report, Rng};
use rspirv::binary::{DecodeError, Decoder};
use rspirv::verif;

#[derive(Clone, Debug)]
pub enum Req {
    Word,
    Words(usize),
    Str,
    Bit32,
    Bit64,
    Id,
    ExtInst,
    Typed(usize),
    SetLimit(usize),
    ClearLimit,
    HasLimit,
    LimitReached,
    Offset,
}

#[derive(Clone, Copy, Debug, PartialEq)]
enum Lim {
    None,
    /// remaining words lie in [lo, hi]
    Some(usize, usize),
}

struct Model<'a> {
    b: &'a [u8],
    off: usize,
    lim: Lim,
    /// offset at the last set_limit and the limit value set
    set_at: Option<(usize, usize)>,
}

fn declared(type_name: &str, v: u32) -> bool {
    if let Some(e) = decls::ENUMS.iter().find(|e| e.name == type_name) {
        return e.variants.iter().any(|(_, x)| *x == v);
    }
    if let Some(m) = decls::MASKS.iter().find(|m| m.name == type_name) {
        let all = m.consts.iter().fold(0u32, |a, (_, b)| a | b);
        return v & !all == 0;
    }
    false
}

fn err_offset(e: &DecodeError) -> Option<usize> {
    let d = format!("{:?}", e);
    let inner = d.split('(').nth(1)?;
    let num: String = inner.chars().take_while(|c| c.is_ascii_digit()).collect();
    num.parse().ok()
}
fn err_kind(e: &DecodeError) -> String {
    format!("{:?}", e).split('(').next().unwrap_or("").to_string()
}

impl<'a> Model<'a> {
    fn word_at(&self, off: usize) -> Option<u32> {
        if off + 4 <= self.b.len() {
            Some(u32::from_le_bytes([self.b[off], self.b[off + 1], self.b[off + 2], self.b[off + 3]]))
        } else {
            None
        }
    }
    /// Model of one raw word request. Returns Err(description) on disagreement.
    fn word(&mut self, got: &Result<u32, DecodeError>, off_after: usize) -> Result<(), String> {
        let at_end = self.off + 4 > self.b.len();
        match got {
            Ok(v) => {
                if let Lim::Some(_, hi) = self.lim {
                    if hi == 0 {
                        return Err(format!("word() succeeded although the limit is exhausted (offset {})", self.off));
                    }
                }
                match self.word_at(self.off) {
                    None => return Err(format!("word() succeeded at offset {} of a {}-byte buffer", self.off, self.b.len())),
                    Some(w) if w != *v => return Err(format!("word() = {:#x}, little-endian word at offset {} is {:#x}", v, self.off, w)),
                    _ => {}
                }
                if off_after != self.off + 4 {
                    return Err(format!("successful word() moved the offset from {} to {}", self.off, off_after));
                }
                self.off += 4;
                if let Lim::Some(lo, hi) = self.lim {
                    self.lim = Lim::Some(lo.max(1) - 1, hi - 1);
                }
            }
            Err(e) => {
                if off_after != self.off {
                    return Err(format!("failed word() moved the offset from {} to {}", self.off, off_after));
                }
                if err_offset(e) != Some(self.off) {
                    return Err(format!("failed word() reports {:?}, current offset is {}", e, self.off));
                }
                match (e, self.lim) {
                    (DecodeError::LimitReached(_), Lim::Some(lo, _)) if lo == 0 => self.lim = Lim::Some(0, 0),
                    (DecodeError::LimitReached(_), _) => return Err(format!("word() reports LimitReached although {:?} words remain under the limit", self.lim)),
                    (DecodeError::StreamExpected(_), l) => {
                        if !at_end {
                            return Err(format!("word() reports StreamExpected at offset {} of a {}-byte buffer", self.off, self.b.len()));
                        }
                        if let Lim::Some(lo, hi) = l {
                            if hi == 0 {
                                return Err("word() reports StreamExpected although the limit is exhausted (LimitReached expected)".into());
                            }
                            // the limit after a request that failed on the stream is left open
                            self.lim = Lim::Some(lo.saturating_sub(1), hi);
                        }
                    }
                    (other, _) => return Err(format!("word() failed with {:?}", other)),
                }
            }
        }
        Ok(())
    }
}

fn gen_buffer(rng: &mut Rng, idx: u64) -> Vec<u8> {
    let len = if idx < 65 * 4 { (idx % 65) as usize } else if rng.chance(1, 4) { rng.below(4097) } else { rng.below(80) };
    let mut b = Vec::with_capacity(len);
    let style = rng.below(6);
    while b.len() < len {
        match if style == 5 { rng.below(5) } else { style } {
            0 => b.push(0),
            1 => b.push(b'a' + rng.below(26) as u8),
            2 => b.push(rng.u32() as u8),
            3 => {
                // a declared enumerant / small number as a word
                let e = &decls::ENUMS[rng.below(decls::ENUMS.len())];
                let v = e.variants[rng.below(e.variants.len())].1;
                b.extend_from_slice(&v.to_le_bytes());
            }
            _ => {
                // string-ish: a few chars then NUL padding, sometimes invalid UTF-8
                for _ in 0..rng.below(7) {
                    b.push(if rng.chance(1, 12) { 0xff } else { b'A' + rng.below(50) as u8 });
                }
                for _ in 0..rng.range(1, 4) {
                    b.push(0);
                }
            }
        }
    }
    b.truncate(len);
    b
}

fn gen_req(rng: &mut Rng, rem_words: usize) -> Req {
    match rng.below(20) {
        0..=3 => Req::Word,
        4 => Req::Words(match rng.below(12) {
            0 => 1usize << 62,
            1 => (1usize << 62) + rng.below(4),
            2 => (1usize << 63) + rng.below(3),
            3 => usize::MAX - rng.below(3),
            4 => (1usize << 32) + rng.below(3),
            5 => u32::MAX as usize,
            6 => rem_words + rng.below(3),
            _ => rng.below(5),
        }),
        5..=7 => Req::Str,
        8 => Req::Bit32,
        9 => Req::Bit64,
        10 => Req::Id,
        11 => Req::ExtInst,
        12..=13 => Req::Typed(rng.below(decls::DECODER_REQUESTS.len())),
        14..=15 => {
            let k = match rng.below(9) {
                0 => 0,
                1 => 1,
                2 => 2,
                3 => 3,
                4 => rem_words,
                5 => rem_words + 1,
                6 => rem_words.saturating_sub(1),
                7 => 1usize << 31,
                _ => usize::MAX,
            };
            Req::SetLimit(k)
        }
        16 => Req::ClearLimit,
        17 => Req::HasLimit,
        18 => Req::LimitReached,
        _ => Req::Offset,
    }
}

pub fn play(b: &[u8], script: &[Req], r: &mut Report, rp: &dyn Fn() -> Json) -> bool {
    // exact-size heap copy so that sanitizer red zones are adjacent to the buffer
    // ... placed at every alignment modulo 4 (a byte slice may start anywhere): `lead` filler bytes in front
    let lead = (b.len() / 3 + b.first().copied().unwrap_or(0) as usize + script.len()) % 4;
    let mut v = vec![0x55u8; lead];
    v.extend_from_slice(b);
    let boxed: Box<[u8]> = v.into_boxed_slice();
    let buf: &[u8] = &boxed[lead..];
    let mut d = Decoder::new(buf);
    let mut m = Model { b: buf, off: 0, lim: Lim::None, set_at: None };
    verif::record(true);
    let _ = verif::drain();
    let describe = |i: usize| format!("buffer[{}]={} script={:?} (failing step {})", b.len(), hex_bytes(&b[..b.len().min(64)]), &script[..=i], i);
    for (i, req) in script.iter().enumerate() {
        let fail = |r: &mut Report, rule: &str, msg: String| {
            r.violation(format!("C11:{}", rule), format!("{}\n{}", msg, describe(i)), rp().set("buffer", hex_bytes(b)).set("script", format!("{:?}", script)));
        };
        let off_before = m.off;
        let outcome: Result<Result<(), (String, String)>, crate::util::Panic> = catch(|| -> Result<(), (String, String)> {
            match req {
                Req::Word | Req::Bit32 | Req::Id | Req::ExtInst => {
                    let got = match req {
                        Req::Word => d.word(),
                        Req::Bit32 => d.bit32(),
                        Req::Id => d.id(),
                        _ => d.ext_inst_integer(),
                    };
                    let oa = d.offset();
                    m.word(&got, oa).map_err(|e| ("word".to_string(), e))
                }
                Req::Words(n) => {
                    let got = d.words(*n);
                    let oa = d.offset();
                    // model: n sequential word requests, stopping at the first failure
                    let mut out = vec![];
                    let mut failed = false;
                    for _ in 0..*n {
                        let at_end = m.off + 4 > m.b.len();
                        let lim_zero = matches!(m.lim, Lim::Some(_, 0));
                        if at_end || lim_zero {
                            failed = true;
                            break;
                        }
                        if let Lim::Some(lo, _) = m.lim {
                            if lo == 0 {
                                // limit may or may not be exhausted: follow the implementation
                                if got.is_err() && out.len() * 4 + off_before == oa {
                                    failed = true;
                                    break;
                                }
                            }
                        }
                        let w = m.word_at(m.off).unwrap();
                        out.push(w);
                        m.off += 4;
                        if let Lim::Some(lo, hi) = m.lim {
                            m.lim = Lim::Some(lo.max(1) - 1, hi - 1);
                        }
                    }
                    match (&got, failed) {
                        (Ok(v), false) => {
                            if *v != out {
                                return Err(("words".into(), format!("words({}) = {:x?}, buffer holds {:x?}", n, v, out)));
                            }
                        }
                        (Err(e), true) => {
                            if err_offset(e) != Some(m.off) {
                                return Err(("words".into(), format!("words({}) failed with {:?}, model offset {}", n, e, m.off)));
                            }
                            if let (DecodeError::StreamExpected(_), Lim::Some(lo, hi)) = (e, m.lim) {
                                m.lim = Lim::Some(lo.saturating_sub(1), hi);
                            }
                            if let DecodeError::LimitReached(_) = e {
                                m.lim = Lim::Some(0, 0);
                            }
                        }
                        (Ok(_), true) => return Err(("words".into(), format!("words({}) succeeded, model expects a failure at offset {}", n, m.off))),
                        (Err(e), false) => return Err(("words".into(), format!("words({}) failed with {:?}, model expects {:x?}", n, e, out))),
                    }
                    if oa != m.off {
                        return Err(("words".into(), format!("words({}) left the offset at {}, model {}", n, oa, m.off)));
                    }
                    Ok(())
                }
                Req::Bit64 => {
                    let got = d.bit64();
                    let oa = d.offset();
                    let lo_w = m.word_at(m.off);
                    let hi_w = m.word_at(m.off + 4);
                    let avail = match m.lim {
                        Lim::None => Some(2usize),
                        Lim::Some(lo, hi) if lo == hi => Some(lo.min(2)),
                        _ => None,
                    };
                    match (&got, avail) {
                        (_, None) => {
                            // limit only known as an interval: check value if ok, resync
                            if let Ok(v) = &got {
                                let want = lo_w.zip(hi_w).map(|(l, h)| ((h as u64) << 32) | l as u64);
                                if Some(*v) != want || oa != m.off + 8 {
                                    return Err(("bit64".into(), format!("bit64() = {:#x} at offset {}, buffer gives {:x?}", v, m.off, want)));
                                }
                            }
                            let used = (oa - m.off) / 4;
                            if let Lim::Some(lo, hi) = m.lim {
                                m.lim = Lim::Some(lo.saturating_sub(used + 1), hi.saturating_sub(used));
                            }
                            m.off = oa;
                        }
                        (Ok(v), Some(a)) => {
                            let want = lo_w.zip(hi_w).map(|(l, h)| ((h as u64) << 32) | l as u64);
                            if a < 2 || Some(*v) != want {
                                return Err(("bit64".into(), format!("bit64() = {:#x} at offset {} with {:?} words under the limit; buffer gives {:x?} (low word first)", v, m.off, a, want)));
                            }
                            if oa != m.off + 8 {
                                return Err(("bit64".into(), format!("successful bit64() moved the offset from {} to {}", m.off, oa)));
                            }
                            m.off += 8;
                            if let Lim::Some(lo, hi) = m.lim {
                                m.lim = Lim::Some(lo - 2, hi - 2);
                            }
                        }
                        (Err(e), Some(a)) => {
                            let words_ok = [lo_w, hi_w].iter().take_while(|w| w.is_some()).count().min(a);
                            if words_ok >= 2 {
                                return Err(("bit64".into(), format!("bit64() failed with {:?} although two words are available at offset {}", e, m.off)));
                            }
                            if oa != m.off + 4 * words_ok || err_offset(e) != Some(oa) {
                                return Err(("bit64".into(), format!("failed bit64() ({:?}) left the offset at {}, expected {}", e, oa, m.off + 4 * words_ok)));
                            }
                            m.off = oa;
                            if let Lim::Some(lo, hi) = m.lim {
                                let stream_fail = matches!(e, DecodeError::StreamExpected(_));
                                m.lim = Lim::Some(lo.saturating_sub(words_ok + stream_fail as usize), hi - words_ok);
                            }
                        }
                    }
                    Ok(())
                }
                Req::Typed(k) => {
                    let (name, ty, f) = decls::DECODER_REQUESTS[*k];
                    let got = f(&mut d);
                    let oa = d.offset();
                    let can_read = m.off + 4 <= m.b.len() && !matches!(m.lim, Lim::Some(_, 0));
                    let must_read = can_read && !matches!(m.lim, Lim::Some(0, _));
                    let w = m.word_at(m.off);
                    match &got {
                        Ok(v) => {
                            if !can_read || w != Some(*v) || !declared(ty, *v) {
                                return Err(("typed".into(), format!("{}() = {} at offset {}; word there: {:x?}, declared in {}: {}", name, v, m.off, w, ty, w.map(|x| declared(ty, x)).unwrap_or(false))));
                            }
                            if oa != m.off + 4 {
                                return Err(("typed".into(), format!("successful {}() moved the offset from {} to {}", name, m.off, oa)));
                            }
                            m.off += 4;
                            if let Lim::Some(lo, hi) = m.lim {
                                m.lim = Lim::Some(lo.max(1) - 1, hi - 1);
                            }
                        }
                        Err(e) => {
                            let kind = err_kind(e);
                            if kind == "StreamExpected" || kind == "LimitReached" {
                                if must_read {
                                    return Err(("typed".into(), format!("{}() failed with {:?} although a word is available at offset {}", name, e, m.off)));
                                }
                                if oa != m.off || err_offset(e) != Some(m.off) {
                                    return Err(("typed".into(), format!("{}() failed with {:?}; offset {} -> {}", name, e, m.off, oa)));
                                }
                                if let Lim::Some(lo, hi) = m.lim {
                                    m.lim = Lim::Some(lo.saturating_sub(1), hi);
                                }
                            } else if kind == format!("{}Unknown", ty) {
                                let wv = match w {
                                    Some(x) if can_read && !declared(ty, x) => x,
                                    _ => return Err(("typed".into(), format!("{}() reports {:?} at offset {}; word there {:x?}", name, e, m.off, w))),
                                };
                                if err_offset(e) != Some(m.off) || !format!("{:?}", e).ends_with(&format!(", {})", wv)) {
                                    return Err(("typed".into(), format!("{}() reports {:?}; the undeclared word {} sits at offset {}", name, e, wv, m.off)));
                                }
                                // consuming the undecodable word or not is left open
                                if oa != m.off && oa != m.off + 4 {
                                    return Err(("typed".into(), format!("failed {}() moved the offset from {} to {}", name, m.off, oa)));
                                }
                                let used = (oa - m.off) / 4;
                                m.off = oa;
                                if let Lim::Some(lo, hi) = m.lim {
                                    m.lim = Lim::Some(lo.saturating_sub(1), hi - used);
                                }
                            } else {
                                return Err(("typed".into(), format!("{}() failed with the foreign error {:?}", name, e)));
                            }
                        }
                    }
                    Ok(())
                }
                Req::Str => {
                    let got = d.string();
                    let oa = d.offset();
                    // window: whole words inside buffer and limit
                    let max_words = (m.b.len().saturating_sub(m.off)) / 4;
                    let (wlo, whi) = match m.lim {
                        Lim::None => (max_words, max_words),
                        Lim::Some(lo, hi) => (lo.min(max_words), hi.min(max_words)),
                    };
                    let find = |words: usize| -> Option<usize> { m.b[m.off.min(m.b.len())..m.off.min(m.b.len()) + words * 4].iter().position(|c| *c == 0) };
                    match &got {
                        Ok(s) => {
                            let n = match find(whi) {
                                Some(n) => n,
                                None => return Err(("string".into(), format!("string() = {:?} at offset {} but no NUL lies inside the readable window of {} word(s)", s, m.off, whi))),
                            };
                            let bytes = &m.b[m.off..m.off + n];
                            if std::str::from_utf8(bytes).ok() != Some(s.as_str()) {
                                return Err(("string".into(), format!("string() = {:?}; bytes up to the first NUL at offset {} are {:x?}", s, m.off, bytes)));
                            }
                            let used = n / 4 + 1;
                            if oa != m.off + used * 4 {
                                return Err(("string".into(), format!("string() of {} byte(s) moved the offset from {} to {} (expected {})", n, m.off, oa, m.off + used * 4)));
                            }
                            m.off = oa;
                            if let Lim::Some(lo, hi) = m.lim {
                                if used > hi {
                                    return Err(("string-limit".into(), format!("string() consumed {} word(s) with at most {} left under the limit", used, hi)));
                                }
                                m.lim = Lim::Some(lo.max(used) - used, hi - used);
                            }
                        }
                        Err(e) => {
                            let kind = err_kind(e);
                            let eo = err_offset(e).unwrap_or(usize::MAX);
                            match find(wlo) {
                                Some(n) => {
                                    // a terminated string is available whatever the limit is: only invalid UTF-8 may fail
                                    let valid = std::str::from_utf8(&m.b[m.off..m.off + n]).is_ok();
                                    if valid || kind != "DecodeStringFailed" {
                                        return Err(("string".into(), format!("string() failed with {:?} although a {} string terminated by NUL lies at offset {}", e, if valid { "valid UTF-8" } else { "non-UTF-8" }, m.off)));
                                    }
                                    if eo != m.off {
                                        return Err(("string".into(), format!("string() reports {:?}, string starts at offset {}", e, m.off)));
                                    }
                                }
                                None => {
                                    // which error reports an unterminated string is left open by the property
                                    if kind != "LimitReached" && kind != "StreamExpected" && kind != "DecodeStringFailed" {
                                        return Err(("string".into(), format!("unterminated string at offset {} failed with {:?}", m.off, e)));
                                    }
                                    if kind == "LimitReached" && m.lim == Lim::None {
                                        return Err(("string".into(), format!("string() reports {:?} although no limit is set", e)));
                                    }
                                    if eo < m.off || eo > m.b.len().max(m.off) {
                                        return Err(("string".into(), format!("string() reports {:?}, outside [{}..{}]", e, m.off, m.b.len())));
                                    }
                                }
                            }
                            if oa < m.off || oa > m.b.len() || (oa - m.off) % 4 != 0 {
                                return Err(("string".into(), format!("failed string() moved the offset from {} to {}", m.off, oa)));
                            }
                            let used = (oa - m.off) / 4;
                            m.off = oa;
                            if let Lim::Some(lo, hi) = m.lim {
                                m.lim = Lim::Some(lo.saturating_sub(used.max(1)), hi.saturating_sub(used));
                            }
                        }
                    }
                    Ok(())
                }
                Req::SetLimit(k) => {
                    d.set_limit(*k);
                    m.lim = Lim::Some(*k, *k);
                    m.set_at = Some((m.off, *k));
                    Ok(())
                }
                Req::ClearLimit => {
                    d.clear_limit();
                    m.lim = Lim::None;
                    m.set_at = None;
                    Ok(())
                }
                Req::HasLimit => {
                    let g = d.has_limit();
                    if g != (m.lim != Lim::None) {
                        return Err(("has_limit".into(), format!("has_limit() = {}, model limit {:?}", g, m.lim)));
                    }
                    Ok(())
                }
                Req::LimitReached => {
                    let g = d.limit_reached();
                    match (&mut m.lim, g) {
                        (Lim::None, true) => return Err(("limit_reached".into(), "limit_reached() = true without a limit".into())),
                        (Lim::Some(lo, _), true) if *lo > 0 => return Err(("limit_reached".into(), format!("limit_reached() = true with {:?}", m.lim))),
                        (Lim::Some(_, hi), false) if *hi == 0 => return Err(("limit_reached".into(), "limit_reached() = false with an exhausted limit".into())),
                        (Lim::Some(lo, hi), true) => {
                            *lo = 0;
                            *hi = 0;
                        }
                        (Lim::Some(lo, _), false) => *lo = (*lo).max(1),
                        _ => {}
                    }
                    Ok(())
                }
                Req::Offset => {
                    let g = d.offset();
                    if g != m.off {
                        return Err(("offset".into(), format!("offset() = {}, model {}", g, m.off)));
                    }
                    Ok(())
                }
            }
        });
        match outcome {
            Err(p) => {
                fail(r, &format!("panic:{}", panic_key(&p)), format!("request {:?} panicked: {} at {}", req, p.msg, p.loc));
                verif::record(false);
                return false;
            }
            Ok(Err((rule, msg))) => {
                fail(r, &rule, msg);
                verif::record(false);
                return false;
            }
            Ok(Ok(())) => {}
        }
        // global invariants
        let oa = d.offset();
        if oa > buf.len() {
            fail(r, "offset-beyond-end", format!("after {:?} the offset is {} in a {}-byte buffer", req, oa, buf.len()));
            verif::record(false);
            return false;
        }
        if oa < off_before || oa % 4 != 0 {
            fail(r, "offset-step", format!("after {:?} the offset went from {} to {}", req, off_before, oa));
            verif::record(false);
            return false;
        }
        if let Some((at, n)) = m.set_at {
            if (oa - at) / 4 > n {
                fail(r, "limit-exceeded", format!("{} words consumed after set_limit({})", (oa - at) / 4, n));
                verif::record(false);
                return false;
            }
        }
        r.count("requests", 1);
    }
    // hook cross-check: the real limit observed on entry of each decoder request must lie in the
    // interval the model derived, and offsets must never exceed the buffer
    let ev = verif::drain();
    verif::record(false);
    for e in &ev {
        if let verif::Event::Dec { offset, len, .. } = e {
            if offset > len {
                r.violation("C11:hook-offset-beyond-end".to_string(), format!("decoder request entered with offset {} > len {}", offset, len), rp().set("buffer", hex_bytes(b)).set("script", format!("{:?}", script)));
                return false;
            }
        }
    }
    r.count("hook_events", ev.len() as u64);
    true
}

pub fn gen_script(rng: &mut Rng, len: usize) -> Vec<Req> {
    let n = rng.range(1, 40);
    let mut rem = len / 4;
    (0..n)
        .map(|_| {
            let q = gen_req(rng, rem);
            if matches!(q, Req::Word | Req::Bit32 | Req::Id | Req::Typed(_)) {
                rem = rem.saturating_sub(1);
            }
            q
        })
        .collect()
}

pub fn run(cfg: &Cfg, rep: &mut Report) {
    rep.rule = "request scripts (1..40 requests drawn from word, words(k), string, bit32, bit64, id, ext_inst_integer, all 56 typed enum/mask requests, set_limit(k in {0,1,2,3,rem,rem+-1,2^31,usize::MAX}), clear_limit, has_limit, limit_reached, offset) on buffers of every length 0..64 and random lengths to 4096 (NUL-rich, ASCII, noise, enumerant words, string-like with invalid UTF-8), replayed against a decoder model written from the property; invariants after every request: offset <= len, multiple of 4, monotone, words consumed since set_limit(n) <= n. distinct_nontrivial = distinct (request kind, outcome kind) pairs observed".into();
    // directed scripts: the limit / string corner cases of a previously repaired defect
    let mut directed: Vec<(Vec<u8>, Vec<Req>)> = vec![];
    for len in [0usize, 3, 4, 7, 8, 11, 12, 16] {
        for lim in [0usize, 1, 2, 3, 4, 5, 1 << 31, usize::MAX / 4, usize::MAX / 4 + 1, usize::MAX] {
            for nul_at in [None, Some(0usize), Some(2), Some(5), Some(len.saturating_sub(1))] {
                let mut b = vec![b'a'; len];
                if let Some(p) = nul_at {
                    if p < len {
                        b[p] = 0;
                    }
                }
                directed.push((b.clone(), vec![Req::SetLimit(lim), Req::Str, Req::Offset, Req::LimitReached, Req::Word, Req::ClearLimit, Req::Str]));
                directed.push((b, vec![Req::Word, Req::SetLimit(lim), Req::Str, Req::Str, Req::Bit64]));
            }
        }
    }
    // very long strings (the 64 KiB boundary), with and without limits
    for len in [65_531usize, 65_535, 65_536, 65_537, 70_001, 262_144] {
        let mut b = vec![b'q'; len];
        b.extend_from_slice(&[0, 0, 0, 0, 1, 2, 3, 4]);
        while b.len() % 4 != 0 {
            b.push(0);
        }
        directed.push((b.clone(), vec![Req::Str, Req::Offset, Req::Word]));
        directed.push((b.clone(), vec![Req::SetLimit(len / 4 + 1), Req::Str, Req::LimitReached, Req::ClearLimit, Req::Word]));
        directed.push((b.clone(), vec![Req::SetLimit(len / 4), Req::Str, Req::ClearLimit, Req::Str]));
        directed.push((b, vec![Req::SetLimit(usize::MAX), Req::Str, Req::Word]));
    }
    let directed_ref = &directed;
    run_stage(cfg, rep, "directed", directed.len() as u64, |idx, _rng, r| {
        let (b, script) = &directed_ref[idx as usize];
        play(b, script, r, &|| crate::util::replay_ref(cfg, "directed", idx));
    });
    let n = cfg.n(600_000, 40_000_000);
    run_stage(cfg, rep, "scripts", n, |idx, rng, r| {
        let b = gen_buffer(rng, idx);
        let script = gen_script(rng, b.len());
        if idx == 70 || idx == 300 {
            r.sample(Json::obj().set("buffer", hex_bytes(&b[..b.len().min(48)])).set("buffer_len", b.len()).set("script", format!("{:?}", &script[..script.len().min(10)])));
        }
        // outcome classes for coverage accounting (cheap second decoder on the same data)
        {
            let mut d = Decoder::new(&b);
            let _ = catch(|| {
                for q in &script {
                    let key = match q {
                        Req::Word => format!("word:{}", d.word().map(|_| "ok".to_string()).unwrap_or_else(|e| err_kind(&e))),
                        Req::Str => format!("string:{}", d.string().map(|_| "ok".to_string()).unwrap_or_else(|e| err_kind(&e))),
                        Req::Bit64 => format!("bit64:{}", d.bit64().map(|_| "ok".to_string()).unwrap_or_else(|e| err_kind(&e))),
                        Req::Typed(k) => {
                            let (name, _, f) = decls::DECODER_REQUESTS[*k];
                            format!("{}:{}", name, f(&mut d).map(|_| "ok".to_string()).unwrap_or_else(|e| if err_kind(&e).ends_with("Unknown") { "Unknown".into() } else { err_kind(&e) }))
                        }
                        Req::SetLimit(k) => {
                            d.set_limit(*k);
                            continue;
                        }
                        Req::ClearLimit => {
                            d.clear_limit();
                            continue;
                        }
                        Req::Words(k) => format!("words:{}", d.words(*k).map(|_| "ok".to_string()).unwrap_or_else(|e| err_kind(&e))),
                        _ => continue,
                    };
                    r.nontrivial(key);
                }
            });
        }
        play(&b, &script, r, &|| crate::util::replay_ref(cfg, "scripts", idx));
    });
}
