//! C13 – Builder id discipline: fresh ids, exact bound, de-duplicated implicit types.

use crate::bmodel::{method, method_sems, show_trace, ArgCtx, ArgV, CallOut, MClass, MethodSem, RandArgs};
use crate::util::{catch, panic_key, run_stage, Cfg, Json, Report, Rng};
use rspirv::dr::{self, Builder};

#[derive(Clone, Debug)]
struct TypeDecl {
    opcode: String,
    operands: Vec<dr::Operand>,
    id: Option<u32>,
    implicit: bool,
}

fn play(rng: &mut Rng, r: &mut Report, rp: &dyn Fn() -> Json, continue_existing: bool, focus: bool) {
    let sems = method_sems();
    let callable = |m: &&MethodSem| method(m.idx).call.is_some();
    let mut types: Vec<&MethodSem> = sems.iter().filter(|m| m.class == MClass::Type && !m.name.starts_with("type_struct_continued")).filter(callable).collect();
    let mut others: Vec<&MethodSem> = sems.iter().filter(|m| matches!(m.class, MClass::Global | MClass::Context) && m.opname.is_some()).filter(callable).collect();
    // "type graph" histories: the handful of type constructors a front end uses to build aggregate, pointer and
    // recursive types (forward-declared pointers), a three-id operand pool and one storage class for the whole
    // history, so that the arguments of different calls are related (a struct naming a forward-declared
    // pointer, a pointer to that very struct in the same storage class, ...)
    const FOCUS_TYPES: &[&str] = &["type_pointer", "type_struct", "type_struct_id", "type_array", "type_runtime_array", "type_function", "type_vector", "type_int", "type_float", "type_void", "type_bool", "type_image", "type_sampled_image"];
    const FOCUS_OTHERS: &[&str] = &["type_forward_pointer", "type_opaque", "variable", "undef", "constant_bit32", "constant_null", "constant_composite", "decorate", "member_decorate", "name"];
    let preferred_sc: u32 = *rng.pick(&[0u32, 1, 2, 3, 4, 5, 6, 7, 9, 12, 5349]);
    if focus {
        types.retain(|m| FOCUS_TYPES.contains(&m.name));
        others.retain(|m| FOCUS_OTHERS.contains(&m.name));
        if types.is_empty() || others.is_empty() {
            r.inconclusive.push("C13 type-graph histories: the focus method lists match no Builder method".into());
            return;
        }
    }
    let blocks: Vec<&MethodSem> = sems.iter().filter(|m| m.class == MClass::BlockInst).filter(callable).collect();
    // --- start state
    let start: u32 = if continue_existing { rng.range(1, 5000) as u32 } else { 1 };
    let mut b = if continue_existing {
        let mut m = dr::Module::new();
        m.header = Some(dr::ModuleHeader::new(start));
        // an existing module may already hold type declarations
        if rng.chance(1, 2) && start >= 2 {
            // ids of the existing module lie below its bound
            m.types_global_values.push(dr::Instruction::new(rspirv::spirv::Op::TypeVoid, None, Some(start - 1), vec![]));
        }
        // ... and more than that: the scalar declarations later requests will name, in any multiplicity, some
        // of them without a result id (a module value need not come from a loader), some under ids of their own
        // (literal arguments of later requests come from the operand pool 7000..7003)
        if rng.chance(1, 2) {
            use rspirv::spirv::Op;
            for _ in 0..rng.below(5) {
                let (op, operands): (Op, Vec<dr::Operand>) = match rng.below(5) {
                    0 => (Op::TypeVoid, vec![]),
                    1 => (Op::TypeBool, vec![]),
                    2 => (Op::TypeInt, vec![dr::Operand::LiteralBit32(7_000 + rng.below(2) as u32), dr::Operand::LiteralBit32(7_000 + rng.below(2) as u32)]),
                    3 => (Op::TypeFloat, vec![dr::Operand::LiteralBit32(7_000 + rng.below(3) as u32)]),
                    _ => (Op::TypeSampler, vec![]),
                };
                // distinct ids below the bound (declarations sharing an id would not be a module any request built)
                let taken: Vec<u32> = m.types_global_values.iter().filter_map(|i| i.result_id).collect();
                let cand = if start < 2 { 0 } else { 1 + rng.below(start as usize - 1) as u32 };
                let id = if rng.chance(1, 3) || cand == 0 || taken.contains(&cand) { None } else { Some(cand) };
                m.types_global_values.push(dr::Instruction::new(op, None, id, operands));
            }
        }
        Builder::new_from_module(m)
    } else {
        Builder::new()
    };
    // the first id a builder hands out: 1 for a new builder, the header bound when continuing
    if b.verif_next_id() != start {
        r.violation("C13:first-id".to_string(), format!("a builder that must start at {} would allocate {} first", start, b.verif_next_id()), rp());
        return;
    }
    if rng.chance(1, 3) {
        let first = b.id();
        if first != start {
            r.violation("C13:first-id".to_string(), format!("first fresh id {} but the builder starts at {}", first, start), rp());
            return;
        }
    }
    // one history in three starts with a small realistic prelude (unchecked direct calls): equal-valued
    // constants, an array whose length is one of them; their ids seed the operand pool, so that later
    // requests differ from existing declarations only in WHICH equal-valued constant they name
    let mut prelude_ids: Vec<u32> = vec![];
    if !continue_existing && rng.chance(1, 2) {
        let t = b.type_int(32, 0);
        let v = rng.below(3) as u32;
        let c1 = b.constant_bit32(t, v);
        let c2 = b.constant_bit32(t, v);
        let c3 = b.constant_bit32(t, v + 1);
        let e = b.type_float(32, None);
        let a1 = b.type_array(e, c1);
        let st = b.type_struct(vec![e, t]);
        b.decorate(st, rspirv::spirv::Decoration::Block, vec![]);
        b.member_decorate(st, 0, rspirv::spirv::Decoration::Offset, vec![dr::Operand::LiteralBit32(0)]);
        b.name(a1, "arr");
        prelude_ids = vec![e, c1, c2, c3, t];
    }
    let mut model: Vec<TypeDecl> = b.module_ref().types_global_values.iter().map(|i| TypeDecl { opcode: i.class.opname.to_string(), operands: i.operands.clone(), id: i.result_id, implicit: false }).collect();
    let mut fresh_ids: Vec<u32> = vec![];
    let mut explicit_ids: Vec<u32> = vec![];
    let mut log: Vec<String> = vec![format!("start at {}", start)];
    let mut all_implicit = !continue_existing;
    // operand pool: four fixed ids plus the most recent ids the builder returned (def-use links: an array
    // whose length is a real constant, a pointer to a real type ...)
    let mut pool: Vec<u32> = if prelude_ids.is_empty() { (0..4).map(|i| 7_000 + i).collect() } else { prelude_ids.iter().take(4).cloned().collect() };
    if let Some(t) = prelude_ids.get(4) {
        pool.push(*t);
    }
    let steps = rng.range(1, 50);
    let mut open_block = false;
    for step in 0..steps {
        let next_before = b.verif_next_id();
        let tgv_before = b.module_ref().types_global_values.len();
        let hist = |log: &Vec<String>| log.join("; ");
        macro_rules! fail {
            ($rule:expr, $msg:expr) => {{
                r.violation(format!("C13:{}", $rule), format!("{}\nhistory: {}", $msg, hist(&log)), rp().set("history", hist(&log)));
                return;
            }};
        }
        let choice = rng.below(12);
        if rng.chance(1, 30) {
            // the version may be set at any time; it never touches ids or the bound
            let (ma, mi) = (rng.below(3) as u8, rng.below(8) as u8);
            b.set_version(ma, mi);
            log.push(format!("set_version({}, {})", ma, mi));
            if b.verif_next_id() != next_before {
                fail!("counter-changed:set_version", format!("set_version moved the id counter from {} to {}", next_before, b.verif_next_id()));
            }
        }
        if choice == 0 {
            // explicit id request
            let got = b.id();
            log.push(format!("id() -> {}", got));
            if got != next_before {
                fail!("fresh-id:id", format!("id() returned {} but the next id was {}", got, next_before));
            }
            fresh_ids.push(got);
        } else if choice == 1 && !open_block {
            // open a function + block so that later block instructions succeed
            let f = b.begin_function(pool[0], None, rspirv::spirv::FunctionControl::NONE, pool[1]);
            // (a block opened without a label instruction still gets a fresh id of its own)
            let no_label = rng.chance(1, 3);
            let l = if no_label { b.begin_block_no_label(None) } else { b.begin_block(None) };
            log.push(format!("begin_function -> {:?}; begin_block{} -> {:?}", f.as_ref().ok(), if no_label { "_no_label" } else { "" }, l.as_ref().ok()));
            if let (Ok(fid), Ok(lid)) = (&f, &l) {
                if *fid != next_before || *lid != next_before + 1 || b.verif_next_id() != next_before + 2 {
                    fail!(format!("fresh-id:begin_block{}", if no_label { "_no_label" } else { "" }), format!("function id {} and block id {} with the next id {} beforehand and {} afterwards", fid, lid, next_before, b.verif_next_id()));
                }
            }
            for x in [f.ok(), l.ok()].into_iter().flatten() {
                fresh_ids.push(x);
            }
            open_block = b.selected_block().is_some();
        } else {
            let (sem, kind): (&MethodSem, &str) = match choice {
                2..=7 => (*rng.pick(&types), "type"),
                8..=9 => (*rng.pick(&others), "other"),
                _ => (*rng.pick(&blocks), "block"),
            };
            let call = method(sem.idx).call.unwrap();
            let ctx = ArgCtx { small_pool: Some(if focus { pool.iter().rev().take(3).cloned().collect() } else { pool.clone() }), explicit_id_8: if focus { 1 } else { 3 }, insert_end_only: true, prefer_enum: if focus { vec![("StorageClass", preferred_sc)] } else { vec![] }, ..Default::default() };
            let mut marker = 0;
            let mut args = RandArgs::new(rng, &mut marker, &ctx, sem.name);
            let out = match catch(|| call(&mut b, &mut args)) {
                Ok(o) => o,
                Err(p) => {
                    log.push(format!("{}({}) -> panic", sem.name, show_trace(&args.trace)));
                    fail!(format!("panic:{}:{}", sem.name, panic_key(&p)), format!("Builder::{} panicked: {}", sem.name, p.msg));
                }
            };
            let trace = args.trace.clone();
            let explicit: Option<u32> = trace.iter().find_map(|a| match (&a.name[..], &a.v) {
                ("result_id", ArgV::OptWord(v)) => Some(*v),
                _ => None,
            }).flatten();
            let has_id_param = trace.iter().any(|a| a.name == "result_id");
            log.push(format!("{}({}) -> {:?}{}", sem.name, show_trace(&trace).chars().take(140).collect::<String>(), out.word(), out.err_name().map(|e| format!(" Err({})", e)).unwrap_or_default()));
            let next_after = b.verif_next_id();
            let tgv_after = b.module_ref().types_global_values.len();
            if let Some(w) = out.word() {
                if !pool.contains(&w) {
                    pool.push(w);
                    if pool.len() > 9 {
                        pool.remove(4);
                    }
                }
            }
            if next_after < next_before {
                fail!(format!("counter-decreased:{}", sem.name), format!("the id counter went from {} to {}", next_before, next_after));
            }
            if kind == "type" {
                let opcode = sem.opname.clone().unwrap_or_default();
                // the declaration the request denotes: the appended instruction's operands, or (when
                // nothing was appended) reconstruct from the grammar-order expectation
                let ri = crate::gram::db().inst(&opcode);
                let exp = match crate::bmodel::expected_from_table(ri, &trace) {
                    Ok(e) => e,
                    Err(_) => continue,
                };
                let earlier = model.iter().find(|t| t.opcode == opcode && t.operands == exp.operands && t.id.is_some());
                let returned = out.word();
                match explicit {
                    Some(eid) => {
                        all_implicit = false;
                        explicit_ids.push(eid);
                        if tgv_after != tgv_before + 1 {
                            fail!(format!("explicit-type-not-appended:{}", sem.name), format!("a type request with explicit id {} appended {} declaration(s)", eid, tgv_after as i64 - tgv_before as i64));
                        }
                        let last = b.module_ref().types_global_values.last().unwrap();
                        if last.result_id != Some(eid) || last.class.opname != opcode || last.operands != exp.operands || returned != Some(eid) {
                            fail!(format!("explicit-type-content:{}", sem.name), format!("explicit request appended {:?} and returned {:?}", last, returned));
                        }
                        if next_after != next_before {
                            fail!(format!("explicit-type-allocated:{}", sem.name), "an explicit-id request consumed a fresh id".to_string());
                        }
                        model.push(TypeDecl { opcode, operands: exp.operands, id: Some(eid), implicit: false });
                    }
                    None => match earlier {
                        Some(t) => {
                            if returned != t.id {
                                fail!(format!("dedup-wrong-id:{}", sem.name), format!("an identical Op{} {:?} was declared earlier with id {:?}, the request returned {:?}", opcode, exp.operands, t.id, returned));
                            }
                            if tgv_after != tgv_before {
                                fail!(format!("dedup-appended:{}", sem.name), format!("an identical declaration exists (id {:?}) but the request appended another one", t.id));
                            }
                            if next_after != next_before {
                                fail!(format!("dedup-allocated:{}", sem.name), "a de-duplicated request consumed a fresh id".to_string());
                            }
                            r.count("dedup_hits", 1);
                        }
                        None => {
                            if tgv_after != tgv_before + 1 {
                                fail!(format!("implicit-type-not-appended:{}", sem.name), format!("no identical declaration exists but {} declaration(s) were appended", tgv_after as i64 - tgv_before as i64));
                            }
                            let last = b.module_ref().types_global_values.last().unwrap();
                            if returned != Some(next_before) || last.result_id != returned || last.class.opname != opcode || last.operands != exp.operands {
                                fail!(format!("implicit-type-fresh-id:{}", sem.name), format!("new declaration {:?}, returned {:?}, next id was {}", last, returned, next_before));
                            }
                            if next_after != next_before + 1 {
                                fail!(format!("implicit-type-counter:{}", sem.name), format!("counter {} -> {}", next_before, next_after));
                            }
                            fresh_ids.push(next_before);
                            model.push(TypeDecl { opcode, operands: exp.operands, id: returned, implicit: true });
                            r.count("dedup_misses", 1);
                        }
                    },
                }
                r.nontrivial(format!("type:{}:{}", sem.name, if explicit.is_some() { "explicit" } else if tgv_after == tgv_before { "dedup-hit" } else { "new" }));
            } else {
                // non-type emitters: implicit result ids are the next fresh id; explicit ones allocate nothing
                let allocates_implicit = (has_id_param && explicit.is_none()) || (!has_id_param && matches!(out, CallOut::Word(_) | CallOut::ResWord(_)));
                match (&out, allocates_implicit) {
                    (CallOut::Word(w), true) | (CallOut::ResWord(Ok(w)), true) => {
                        if *w != next_before || next_after != next_before + 1 {
                            fail!(format!("fresh-id:{}", sem.name), format!("implicit result id {} but the next id was {} (counter afterwards {})", w, next_before, next_after));
                        }
                        fresh_ids.push(*w);
                    }
                    (CallOut::ResWord(Err(_)), _) | (CallOut::ResUnit(Err(_)), _) => {
                        // a failing call may have reserved at most one id
                        if next_after > next_before + 1 {
                            fail!(format!("failed-call-reserved-many:{}", sem.name), format!("counter {} -> {}", next_before, next_after));
                        }
                        r.count("failed_calls", 1);
                    }
                    (_, false) => {
                        if next_after != next_before {
                            fail!(format!("unexpected-allocation:{}", sem.name), format!("the call allocates no id but the counter went {} -> {}", next_before, next_after));
                        }
                        if let Some(e) = explicit {
                            explicit_ids.push(e);
                            if out.word().is_some() && out.word() != Some(e) {
                                fail!(format!("explicit-id-ignored:{}", sem.name), format!("explicit result id {} requested, {:?} returned", e, out.word()));
                            }
                        }
                    }
                    _ => {}
                }
                // types_global_values bookkeeping for instructions filed there (constants, variables)
                for i in b.module_ref().types_global_values.iter().skip(tgv_before) {
                    model.push(TypeDecl { opcode: i.class.opname.to_string(), operands: i.operands.clone(), id: i.result_id, implicit: false });
                }
                r.nontrivial(format!("{}:{}", kind, if out.is_err() { "err" } else { "ok" }));
            }
        }
        // strictly increasing fresh ids
        if fresh_ids.windows(2).any(|w| w[1] <= w[0]) {
            fail!("not-increasing", format!("fresh ids are not strictly increasing: {:?}", fresh_ids));
        }
        let _ = step;
        r.count("calls", 1);
    }
    let next = b.verif_next_id();
    let tgv: Vec<dr::Instruction> = b.module_ref().types_global_values.clone();
    let m = b.module();
    let bound = m.header.as_ref().map(|h| h.bound);
    if bound != Some(next) {
        r.violation("C13:bound".to_string(), format!("header bound {:?} but the next id to be allocated is {}\nhistory: {}", bound, next, log.join("; ")), rp());
        return;
    }
    if fresh_ids.iter().any(|i| *i >= next) {
        r.violation("C13:bound-not-above".to_string(), format!("bound {} does not exceed the allocated ids {:?}", next, fresh_ids), rp());
        return;
    }
    // all-implicit modules never contain two identical type declarations; different requests never share an id
    // type_opaque / type_forward_pointer are hand-written and never de-duplicate: outside the quantifier
    // ("every generated type method and type_pointer")
    let decls: Vec<&dr::Instruction> = tgv.iter().filter(|i| i.class.opname.starts_with("Type") && i.class.opname != "TypeOpaque" && i.class.opname != "TypeForwardPointer").collect();
    for (i, a) in decls.iter().enumerate() {
        for bq in decls.iter().skip(i + 1) {
            let same_decl = a.class.opcode == bq.class.opcode && a.operands == bq.operands;
            if all_implicit && same_decl {
                r.violation(format!("C13:duplicate-implicit-type:{}", a.class.opname), format!("two identical declarations {:?} in a module whose types were all requested implicitly\nhistory: {}", a, log.join("; ")), rp());
                return;
            }
            if !same_decl && a.result_id.is_some() && a.result_id == bq.result_id && !explicit_ids.contains(&a.result_id.unwrap()) {
                r.violation(format!("C13:shared-id:{}", a.class.opname), format!("different requests share id {:?}: {:?} / {:?}\nhistory: {}", a.result_id, a, bq, log.join("; ")), rp());
                return;
            }
        }
    }
    r.count("histories", 1);
}

pub fn run(cfg: &Cfg, rep: &mut Report) {
    rep.rule = "histories of 1..50 calls mixing id(), every generated type method (implicit and explicit ids) and type_pointer with operands from a 4-id pool (so repeats are frequent), constants/variables/other emitters, block-instruction calls that fail after reserving an id, on new builders and on builders continuing a module with header bound B; one history in four is a 'type graph' history (only the aggregate / pointer / forward-pointer constructors and a few emitters, a three-id pool of the most recent ids, one storage class for the whole history); after every call the next-id hook, the returned id and types_global_values are compared with a counter model and a declaration-list model (identity = opcode + operands); at the end bound == next id > every fresh id, no duplicate declarations in all-implicit modules, no shared ids. distinct_nontrivial = distinct (type method, request kind) and (emitter kind, outcome) pairs".into();
    let n = cfg.n(100_000, 15_000_000);
    run_stage(cfg, rep, "histories", n, |idx, rng, r| {
        let rp = || crate::util::replay_ref(cfg, "histories", idx);
        play(rng, r, &rp, idx % 3 == 2, idx % 4 == 1);
    });
    rep.sample(Json::obj().set("example", "type_int(32,0) twice -> same id, one declaration; type_int_id(Some(9),32,0) -> appended with id 9; then type_int(32,0) -> the first matching id"));
}
