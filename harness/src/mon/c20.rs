//! C20 – rspirv-dis prints the library disassembly or an error and never crashes.

use crate::gram::{self, db};
use crate::mon::c03::gen_base;
use crate::mutate::{self, Base};
use crate::util::{catch, hex_bytes, run_stage, words_to_bytes, Cfg, Json, Report, Rng};
use rspirv::binary::Disassemble;
use std::path::PathBuf;
use std::process::Command;

fn root() -> PathBuf {
    PathBuf::from(std::env::var("VERIF_ROOT").unwrap_or_else(|_| "/verif".into()))
}
fn dis_binary() -> PathBuf {
    root().join("harness").join("target-dis").join("debug").join("rspirv-dis")
}

fn gen_input(rng: &mut Rng, idx: u64, directed: &[(String, Vec<u8>)]) -> (String, Vec<u8>) {
    let d = db();
    if idx < 20 {
        // empty file and 1..19 bytes
        let mut b: Vec<u8> = words_to_bytes(&gram::header(0x0001_0000, 0, 1));
        b.truncate(idx as usize);
        return (format!("header-prefix-{}", idx), b);
    }
    if (idx as usize) < 20 + directed.len() {
        return directed[idx as usize - 20].clone();
    }
    if idx % 9 == 8 {
        // modules without functions whose LAST instruction renders as a very long line (long strings,
        // long operand lists): exercises buffered / partial writes of the output
        use crate::gram::{AInst, AOp};
        let mut insts = vec![AInst::named("MemoryModel", None, None, vec![AOp::w(crate::gram::K::AddressingModel, 0), AOp::w(crate::gram::K::MemoryModel, 1)])];
        let len = *rng.pick(&[600usize, 1000, 1023, 1024, 1025, 1500, 4096, 9000, 70_000]) + rng.below(3);
        let long: String = (0..len).map(|i| (b'a' + (i % 26) as u8) as char).collect();
        let last = match rng.below(4) {
            0 => AInst::named("ModuleProcessed", None, None, vec![AOp::s(&long)]),
            1 => AInst::named("String", None, Some(7), vec![AOp::s(&long)]),
            2 => AInst::named("TypeStruct", None, Some(7), (0..(len / 4).min(16000) as u32).map(|i| AOp::id(100 + i)).collect()),
            _ => AInst::named("Name", None, None, vec![AOp::id(3), AOp::s(&long)]),
        };
        for _ in 0..rng.below(3) {
            insts.push(AInst::named("Name", None, None, vec![AOp::id(4), AOp::s("x")]));
        }
        insts.push(last);
        let (w, _m, _s) = crate::genmod::encode_module(0x0001_0300, 0, 20_000, &insts, None);
        return (format!("long-last-line-{}", len), words_to_bytes(&w));
    }
    if idx % 9 == 7 {
        let variant = rng.next() % crate::scale::N_VARIANTS;
        let (label, insts) = crate::scale::scale_module(rng, variant);
        let (w, _m, _s) = crate::genmod::encode_module(0x0001_0300, 0, 1 << 22, &insts, None);
        return (format!("scale {}", label), words_to_bytes(&w));
    }
    let must = vec![rng.below(d.insts.len())];
    let small = rng.chance(1, 2);
    let b = gen_base(rng, must, small);
    match rng.below(10) {
        0..=2 => ("valid".into(), words_to_bytes(&b.words)),
        9 => {
            let len = rng.below(300);
            let mut v: Vec<u8> = (0..len).map(|_| rng.u32() as u8).collect();
            if v.len() >= 4 && rng.chance(1, 2) {
                v[..4].copy_from_slice(&gram::MAGIC.to_le_bytes());
            }
            ("noise".into(), v)
        }
        _ => {
            let m = rng.below(mutate::N_MUTATORS);
            let (bytes, label) = mutate::mutate(rng, &Base { words: &b.words, starts: &b.starts, insts: &b.insts }, m);
            (format!("m{} {}", m, label), bytes)
        }
    }
}

pub fn run(cfg: &Cfg, rep: &mut Report) {
    rep.rule = "the rspirv-dis binary rebuilt from /repo is run as a process on generated files (empty, 1..19 bytes, valid modules of every kind, 16 structured mutators, directed crash-corpus classes, noise); exit status must be 0, stderr empty, stdout == in-process `load_bytes(..).map(disassemble)` or the Display of the loading error, plus exactly one newline (error case: a single line); a sample of the files is additionally run under valgrind memcheck (--error-exitcode). distinct_nontrivial = distinct (input class, outcome class) pairs".into();
    let bin = dis_binary();
    if !bin.exists() {
        rep.inconclusive.push(format!("rspirv-dis binary not found at {}", bin.display()));
        return;
    }
    let dir = root().join("tmp").join(format!("c20-{}", std::process::id()));
    if std::fs::create_dir_all(&dir).is_err() {
        rep.inconclusive.push("cannot create scratch directory".into());
        return;
    }
    let directed = crate::mon::c04::directed_inputs();
    let n = cfg.n(400, 40_000);
    let n_valgrind = cfg.n(40, 1_200);
    let have_valgrind = Command::new("valgrind").arg("--version").output().map(|o| o.status.success()).unwrap_or(false);
    if !have_valgrind {
        rep.inconclusive.push("valgrind not available".into());
    }
    let (dir_ref, bin_ref, directed_ref) = (&dir, &bin, &directed);
    run_stage(cfg, rep, "files", n, |idx, rng, r| {
        let (label, bytes) = gen_input(rng, idx, directed_ref);
        let path = dir_ref.join(format!("in-{}.spv", idx));
        if std::fs::write(&path, &bytes).is_err() {
            r.inconclusive.push("cannot write input file".into());
            return;
        }
        let rp = || crate::util::replay_ref(cfg, "files", idx).set("binary", hex_bytes(&bytes)).set("label", label.clone());
        // in-process expectation
        let expected: Result<(String, bool), crate::util::Panic> = catch(|| match rspirv::dr::load_bytes(&bytes) {
            Ok(m) => (m.disassemble(), true),
            Err(e) => (format!("{}", e), false),
        });
        let under_valgrind = have_valgrind && idx % (n / n_valgrind.max(1)).max(1) == 0;
        let out = if under_valgrind {
            Command::new("valgrind").args(["--quiet", "--error-exitcode=99", "--leak-check=no"]).arg(bin_ref).arg(&path).output()
        } else {
            Command::new(bin_ref).arg(&path).output()
        };
        let _ = std::fs::remove_file(&path);
        let out = match out {
            Ok(o) => o,
            Err(e) => {
                r.inconclusive.push(format!("cannot run rspirv-dis: {}", e));
                return;
            }
        };
        let class = label.split(' ').next().unwrap_or("").split('@').next().unwrap_or("").to_string();
        let fail = |r: &mut Report, rule: &str, msg: String| {
            r.violation(format!("C20:{}", rule), format!("{}\ninput ({}): {}", msg, label, hex_bytes(&bytes[..bytes.len().min(200)])), rp());
        };
        let code = out.status.code();
        let stderr = String::from_utf8_lossy(&out.stderr).to_string();
        if under_valgrind && code == Some(99) {
            fail(r, "valgrind", format!("memcheck reported errors:\n{}", stderr.lines().take(20).collect::<Vec<_>>().join("\n")));
            return;
        }
        if code != Some(0) {
            let what = stderr.lines().find(|l| l.contains("panicked")).map(|l| {
                let loc = l.split(" at ").last().unwrap_or("").trim_end_matches(':');
                loc.rsplit('/').next().unwrap_or("").split(':').take(2).collect::<Vec<_>>().join(":")
            }).unwrap_or_default();
            fail(r, &format!("exit-status:{:?}:{}", code, what), format!("rspirv-dis exited with status {:?}; stderr: {}", code, stderr.lines().take(4).collect::<Vec<_>>().join(" | ")));
            return;
        }
        if !stderr.is_empty() {
            fail(r, "stderr", format!("rspirv-dis wrote to stderr: {}", stderr.lines().take(4).collect::<Vec<_>>().join(" | ")));
            return;
        }
        let stdout = String::from_utf8_lossy(&out.stdout).to_string();
        match expected {
            Err(p) => {
                fail(r, "library-panics", format!("the library panics on this input in-process ({}), the binary exited 0", p.msg));
            }
            Ok((text, ok)) => {
                if stdout != format!("{}\n", text) {
                    fail(r, if ok { "stdout-disassembly" } else { "stdout-error-message" }, format!("stdout differs from the library result\nstdout: {:?}\nlibrary: {:?}", stdout.chars().take(300).collect::<String>(), text.chars().take(300).collect::<String>()));
                    return;
                }
                if !ok && text.contains('\n') {
                    fail(r, "error-message-multiline", format!("the loading error prints several lines: {:?}", text));
                    return;
                }
                r.nontrivial(format!("{}:{}{}", class, if ok { "disassembly" } else { "error" }, if under_valgrind { ":memcheck" } else { "" }));
                if under_valgrind {
                    r.count("valgrind_runs", 1);
                }
                r.count(if ok { "disassemblies" } else { "error_messages" }, 1);
            }
        }
        if idx == 25 || idx == 200 {
            r.sample(Json::obj().set("label", label.clone()).set("bytes", bytes.len()).set("stdout_first_line", stdout.lines().next().unwrap_or("").to_string()));
        }
    });
    let _ = std::fs::remove_dir_all(&dir);
}
