//! C20 – rspirv-dis prints the library disassembly or an error and never crashes.

use crate::gram::{self, db};
use crate::mon::c03::gen_base;
use crate::mutate::{self, Base};
use crate::util::{catch, hex_bytes, run_stage, words_to_bytes, Cfg, Json, Report, Rng};
use rspirv::binary::Disassemble;
use std::path::PathBuf;
use std::process::Command;

fn root() -> PathBuf {
    PathBuf::from(std::env::var("VERIF_ROOT").unwrap_or_else(|_| "/verif".into()))
}
fn dis_binary() -> PathBuf {
    root().join("harness").join("target-dis").join("debug").join("rspirv-dis")
}

fn gen_input(rng: &mut Rng, idx: u64, directed: &[(String, Vec<u8>)]) -> (String, Vec<u8>) {
    let d = db();
    if idx < 20 {
        // empty file and 1..19 bytes
        let mut b: Vec<u8> = words_to_bytes(&gram::header(0x0001_0000, 0, 1));
        b.truncate(idx as usize);
        return (format!("header-prefix-{}", idx), b);
    }
    if (idx as usize) < 20 + directed.len() {
        return directed[idx as usize - 20].clone();
    }
    if idx % 9 == 8 {
        // modules without functions whose LAST instruction renders as a very long line (long strings,
        // long operand lists): exercises buffered / partial writes of the output
        use crate::gram::{AInst, AOp};
        let mut insts = vec![AInst::named("MemoryModel", None, None, vec![AOp::w(crate::gram::K::AddressingModel, 0), AOp::w(crate::gram::K::MemoryModel, 1)])];
        let len = *rng.pick(&[600usize, 1000, 1023, 1024, 1025, 1500, 4096, 9000, 70_000]) + rng.below(3);
        let long: String = (0..len).map(|i| (b'a' + (i % 26) as u8) as char).collect();
        let last = match rng.below(4) {
            0 => AInst::named("ModuleProcessed", None, None, vec![AOp::s(&long)]),
            1 => AInst::named("String", None, Some(7), vec![AOp::s(&long)]),
            2 => AInst::named("TypeStruct", None, Some(7), (0..(len / 4).min(16000) as u32).map(|i| AOp::id(100 + i)).collect()),
            _ => AInst::named("Name", None, None, vec![AOp::id(3), AOp::s(&long)]),
        };
        for _ in 0..rng.below(3) {
            insts.push(AInst::named("Name", None, None, vec![AOp::id(4), AOp::s("x")]));
        }
        insts.push(last);
        let (w, _m, _s) = crate::genmod::encode_module(0x0001_0300, 0, 20_000, &insts, None);
        return (format!("long-last-line-{}", len), words_to_bytes(&w));
    }
    if idx % 9 == 6 {
        // text that "is" a module for a human but not for the loader: hex listings in the usual tool formats,
        // the disassembly text itself, a module behind a length prefix or a byte-order mark
        let b = gen_base(rng, vec![], true);
        let w = &b.words;
        let kind = rng.below(8);
        let text: Vec<u8> = match kind {
            0 => w.iter().map(|x| format!("0x{:08x}", x)).collect::<Vec<_>>().join(", ").into_bytes(),
            1 => w.chunks(4).map(|c| c.iter().map(|x| format!("0x{:08x},", x)).collect::<Vec<_>>().join(" ")).collect::<Vec<_>>().join("\n").into_bytes(),
            2 => format!("// Module\n{}\n", w.iter().map(|x| format!("\t0x{:08X},", x)).collect::<Vec<_>>().join("\n")).into_bytes(),
            3 => w.iter().map(|x| format!("{:08x}", x)).collect::<Vec<_>>().join(" ").into_bytes(),
            4 => match rspirv::dr::load_words(w) {
                Ok(m) => m.disassemble().into_bytes(),
                Err(_) => b"; SPIR-V\n; Version: 1.0\n".to_vec(),
            },
            5 => {
                let mut v = ((w.len() * 4) as u32).to_le_bytes().to_vec();
                v.extend(words_to_bytes(w));
                v
            }
            6 => {
                let mut v = vec![0xEF, 0xBB, 0xBF];
                v.extend(words_to_bytes(w));
                v
            }
            _ => format!("const uint32_t spirv[] = {{ {} }};", w.iter().map(|x| format!("{}", x)).collect::<Vec<_>>().join(", ")).into_bytes(),
        };
        return (format!("text-rendering-{}", kind), text);
    }
    if idx % 9 == 7 {
        let variant = rng.next() % crate::scale::N_VARIANTS;
        let (label, insts) = crate::scale::scale_module(rng, variant);
        let (w, _m, _s) = crate::genmod::encode_module(0x0001_0300, 0, 1 << 22, &insts, None);
        return (format!("scale {}", label), words_to_bytes(&w));
    }
    let must = vec![rng.below(d.insts.len())];
    let small = rng.chance(1, 2);
    let b = gen_base(rng, must, small);
    match rng.below(10) {
        // one valid module in eight is written in the other byte order (whole, or the magic number only)
        0..=2 if idx % 8 == 3 => {
            let whole = rng.chance(1, 2);
            let w: Vec<u32> = b.words.iter().enumerate().map(|(i, x)| if whole || i == 0 { x.swap_bytes() } else { *x }).collect();
            (format!("valid-other-byte-order whole={}", whole), words_to_bytes(&w))
        }
        0..=2 => ("valid".into(), words_to_bytes(&b.words)),
        9 => {
            let len = rng.below(300);
            let mut v: Vec<u8> = (0..len).map(|_| rng.u32() as u8).collect();
            if v.len() >= 4 && rng.chance(1, 2) {
                v[..4].copy_from_slice(&if rng.chance(1, 3) { gram::MAGIC.to_be_bytes() } else { gram::MAGIC.to_le_bytes() });
            }
            ("noise".into(), v)
        }
        _ => {
            // (every mutator gets its share of every run: by index, not by chance)
            // (... and bracket damage a larger one: those are the inputs on which the loader, not the parser, decides)
            let m = if idx % 4 == 1 { 17 } else { (idx % mutate::N_MUTATORS as u64) as usize };
            let (bytes, label) = mutate::mutate(rng, &Base { words: &b.words, starts: &b.starts, insts: &b.insts }, m);
            (format!("m{} {}", m, label), bytes)
        }
    }
}

/// Runs rspirv-dis on one file and compares exit status, stderr and stdout with the in-process library result.
#[allow(clippy::too_many_arguments)]
fn run_one(cfg: &Cfg, r: &mut Report, stage: &str, idx: u64, dir: &std::path::Path, bin: &std::path::Path, label: &str, bytes: &[u8], under_valgrind: bool, sample: bool) {
    let path = dir.join(format!("in-{}.spv", idx));
    if std::fs::write(&path, bytes).is_err() {
        r.inconclusive.push("cannot write input file".into());
        return;
    }
    let rp = || if bytes.len() <= 1 << 20 { crate::util::replay_ref(cfg, stage, idx).set("binary", hex_bytes(bytes)).set("label", label.to_string()) } else { crate::util::replay_ref(cfg, stage, idx).set("label", label.to_string()).set("input_bytes", bytes.len()) };
    let out = if under_valgrind {
        Command::new("valgrind").args(["--quiet", "--error-exitcode=99", "--leak-check=no"]).arg(bin).arg(&path).output()
    } else {
        Command::new(bin).arg(&path).output()
    };
    let _ = std::fs::remove_file(&path);
    let out = match out {
        Ok(o) => o,
        Err(e) => {
            r.inconclusive.push(format!("cannot run rspirv-dis: {}", e));
            return;
        }
    };
    let class = label.split(' ').next().unwrap_or("").split('@').next().unwrap_or("").to_string();
    let fail = |r: &mut Report, rule: &str, msg: String| {
        r.violation(format!("C20:{}", rule), format!("{}\ninput ({}): {}", msg, label, hex_bytes(&bytes[..bytes.len().min(200)])), rp());
    };
    let code = out.status.code();
    let stderr = String::from_utf8_lossy(&out.stderr).to_string();
    if under_valgrind && code == Some(99) {
        fail(r, "valgrind", format!("memcheck reported errors:\n{}", stderr.lines().take(20).collect::<Vec<_>>().join("\n")));
        return;
    }
    if code != Some(0) {
        let what = stderr.lines().find(|l| l.contains("panicked")).map(|l| {
            let loc = l.split(" at ").last().unwrap_or("").trim_end_matches(':');
            loc.rsplit('/').next().unwrap_or("").split(':').take(2).collect::<Vec<_>>().join(":")
        }).unwrap_or_default();
        fail(r, &format!("exit-status:{:?}:{}", code, what), format!("rspirv-dis exited with status {:?}; stderr: {}", code, stderr.lines().take(4).collect::<Vec<_>>().join(" | ")));
        return;
    }
    if !stderr.is_empty() {
        fail(r, "stderr", format!("rspirv-dis wrote to stderr: {}", stderr.lines().take(4).collect::<Vec<_>>().join(" | ")));
        return;
    }
    let stdout = String::from_utf8_lossy(&out.stdout).to_string();
    // in-process expectation - computed only after the tool itself survived the input, and on a thread with a
    // stack eight times the tool's, so that an input which exhausts the tool's stack cannot take the monitor
    // down with it
    let owned: Vec<u8> = bytes.to_vec();
    let expected: Result<(String, bool), crate::util::Panic> = match std::thread::Builder::new().stack_size(64 << 20).spawn(move || {
        catch(|| match rspirv::dr::load_bytes(&owned) {
            Ok(m) => (m.disassemble(), true),
            Err(e) => (format!("{}", e), false),
        })
    }) {
        Ok(h) => match h.join() {
            Ok(x) => x,
            Err(_) => {
                r.inconclusive.push("expectation thread failed".into());
                return;
            }
        },
        Err(_) => {
            r.inconclusive.push("cannot spawn expectation thread".into());
            return;
        }
    };
    match expected {
        Err(p) => {
            fail(r, "library-panics", format!("the library panics on this input in-process ({}), the binary exited 0", p.msg));
        }
        Ok((text, ok)) => {
            if stdout != format!("{}\n", text) {
                fail(r, if ok { "stdout-disassembly" } else { "stdout-error-message" }, format!("stdout differs from the library result\nstdout: {:?}\nlibrary: {:?}", stdout.chars().take(300).collect::<String>(), text.chars().take(300).collect::<String>()));
                return;
            }
            if !ok && text.contains('\n') {
                fail(r, "error-message-multiline", format!("the loading error prints several lines: {:?}", text));
                return;
            }
            r.nontrivial(format!("{}:{}{}", class, if ok { "disassembly" } else { "error" }, if under_valgrind { ":memcheck" } else { "" }));
            if under_valgrind {
                r.count("valgrind_runs", 1);
            }
            r.count(if ok { "disassemblies" } else { "error_messages" }, 1);
        }
    }
    if sample {
        r.sample(Json::obj().set("label", label.to_string()).set("bytes", bytes.len()).set("stdout_first_line", stdout.lines().next().unwrap_or("").to_string()));
    }
}

/// Target sizes (bytes of listing, roughly) of the `big` stage; the last two are input-file sizes beyond 64 MiB.
const BIG_SIZES: &[usize] = &[300 << 10, 1100 << 10, 2200 << 10, 4500 << 10, 9 << 20, 17 << 20];

/// A module of string-carrying debug instructions whose text mixes 1-, 2-, 3- and 4-byte characters, so that
/// every fixed byte offset of the listing is likely to fall inside a multi-byte character for some case; or
/// (class "huge input") a file just beyond 64 MiB / 128 MiB whose last instruction must still be listed.
fn gen_big(rng: &mut Rng, idx: u64, thorough: bool) -> (String, Vec<u8>) {
    use crate::gram::{AInst, AOp, K};
    let mut insts = vec![AInst::named("MemoryModel", None, None, vec![AOp::w(K::AddressingModel, 0), AOp::w(K::MemoryModel, 1)])];
    if idx % 6 == 4 {
        // very long runs of one tiny instruction (valid or not): depth of recursion, per-instruction costs
        let n = *rng.pick(&[30_000usize, 100_000, 400_000, 1_000_000]);
        let word = *rng.pick(&[0x0001_ffffu32, 0x0001_0000, 0x0001_1388, 0x0002_0013, 0x0000_0000, 0x0001_00fd]);
        let mut w = crate::gram::header(0x0001_0600, 0, 10);
        if rng.chance(1, 2) {
            w.extend([(3 << 16) | 14, 0, 1]);
        }
        w.extend(std::iter::repeat(word).take(n));
        return (format!("run of {} x word {:#010x}", n, word), words_to_bytes(&w));
    }
    let huge = idx % 6 == 5;
    if huge {
        // few very long strings: the file size is what matters
        let total: usize = if thorough && idx % 12 == 11 { (128 << 20) + 4096 } else { (64 << 20) + rng.below(3) * 4 + 16 };
        let per = 0xFFF0 * 4 - 1;
        let chunk: String = (0..per).map(|i| (b'a' + (i % 26) as u8) as char).collect();
        let mut size = 20 + 12;
        let mut id = 1;
        while size + per + 9 < total {
            insts.push(AInst::named("String", None, Some(id), vec![AOp::s(&chunk)]));
            id += 1;
            size += per + 1 + 8;
        }
        // one filler of exactly the remaining size, so that the last instructions start right at the boundary
        let remaining_words = (total.saturating_sub(size) / 4).max(3);
        insts.push(AInst::named("String", None, Some(id), vec![AOp::s(&"r".repeat((remaining_words - 2) * 4 - 1))]));
        id += 1;
        // the last instructions sit right at / beyond the size boundary
        for k in 0..3 {
            insts.push(AInst::named("String", None, Some(id), vec![AOp::s(&format!("tail-{}-{}", k, "z".repeat(rng.below(9))))]));
            id += 1;
        }
        let (w, _m, _s) = crate::genmod::encode_module(0x0001_0300, 0, id + 1, &insts, None);
        let b = words_to_bytes(&w);
        return (format!("huge input of {} MiB + {} bytes", b.len() >> 20, b.len() & 0xfffff), b);
    }
    let target = if thorough { BIG_SIZES[(idx / 6) as usize % BIG_SIZES.len()] } else { BIG_SIZES[(idx % 6) as usize % 4] } + rng.below(4096);
    const ALPHA: &[&str] = &["a", "Z", " ", "\u{e9}", "\u{fc}", "\u{65e5}", "\u{672c}", "\u{8a9e}", "\u{1f600}", "\u{20ac}"];
    let mut listing = 0usize;
    let mut id = 1u32;
    while listing < target {
        let n = rng.range(1, 200);
        let mut text = String::new();
        // an odd ASCII prefix shifts the phase of the multi-byte characters
        for _ in 0..rng.below(4) {
            text.push('x');
        }
        for _ in 0..n {
            text.push_str(*rng.pick(ALPHA));
        }
        listing += text.len() + 20;
        let inst = match rng.below(4) {
            0 => AInst::named("String", None, Some(id), vec![AOp::s(&text)]),
            1 => AInst::named("Name", None, None, vec![AOp::id(id), AOp::s(&text)]),
            2 => AInst::named("ModuleProcessed", None, None, vec![AOp::s(&text)]),
            _ => AInst::named("SourceExtension", None, None, vec![AOp::s(&text)]),
        };
        id += 1;
        insts.push(inst);
    }
    let (w, _m, _s) = crate::genmod::encode_module(0x0001_0300, 0, id + 1, &insts, None);
    (format!("multi-byte listing of about {} KiB", target >> 10), words_to_bytes(&w))
}

pub fn run(cfg: &Cfg, rep: &mut Report) {
    rep.rule = "the rspirv-dis binary rebuilt from /repo is run as a process on generated files (empty, 1..19 bytes, valid modules of every kind, 16 structured mutators, directed crash-corpus classes, noise, text renderings of modules: hex listings in tool formats, the disassembly text, length-prefixed and BOM-prefixed modules); exit status must be 0, stderr empty, stdout == in-process `load_bytes(..).map(disassemble)` or the Display of the loading error, plus exactly one newline (error case: a single line); a sample of the files is additionally run under valgrind memcheck (--error-exitcode). Stage `big`: listings of 0.3..4.5 MiB (thorough: up to 17 MiB) made of text mixing 1- to 4-byte characters, and input files just beyond 64 MiB (thorough: 128 MiB) whose last instructions must still be listed. distinct_nontrivial = distinct (input class, outcome class) pairs".into();
    let bin = dis_binary();
    if !bin.exists() {
        rep.inconclusive.push(format!("rspirv-dis binary not found at {}", bin.display()));
        return;
    }
    let dir = root().join("tmp").join(format!("c20-{}", std::process::id()));
    if std::fs::create_dir_all(&dir).is_err() {
        rep.inconclusive.push("cannot create scratch directory".into());
        return;
    }
    let directed = crate::mon::c04::directed_inputs();
    let n = cfg.n(1200, 40_000);
    let n_valgrind = cfg.n(40, 1_200);
    let have_valgrind = Command::new("valgrind").arg("--version").output().map(|o| o.status.success()).unwrap_or(false);
    if !have_valgrind {
        rep.inconclusive.push("valgrind not available".into());
    }
    let (dir_ref, bin_ref, directed_ref) = (&dir, &bin, &directed);
    run_stage(cfg, rep, "files", n, |idx, rng, r| {
        let (label, bytes) = gen_input(rng, idx, directed_ref);
        let under_valgrind = have_valgrind && idx % (n / n_valgrind.max(1)).max(1) == 0;
        run_one(cfg, r, "files", idx, dir_ref, bin_ref, &label, &bytes, under_valgrind, idx == 25 || idx == 200);
    });
    // large files and large listings: multi-byte text everywhere, listings of several MiB, inputs beyond 64 MiB
    let n_big = if cfg.tier_thorough { BIG_SIZES.len() as u64 * 6 } else { 6 };
    run_stage(cfg, rep, "big", n_big, |idx, rng, r| {
        let (label, bytes) = gen_big(rng, idx, cfg.tier_thorough);
        r.seen("big_inputs", label.clone());
        run_one(cfg, r, "big", idx, dir_ref, bin_ref, &label, &bytes, false, false);
    });
    let _ = std::fs::remove_dir_all(&dir);
}
