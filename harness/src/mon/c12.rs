//! C12 – Builder calls never panic, failed calls change nothing, structure is enforced.

use crate::bmodel::{method, method_sems, show_trace, ArgCtx, CallOut, MClass, MethodSem, RandArgs};
use crate::rs;
use crate::spec;
use crate::util::{catch, panic_key, run_stage, Cfg, Json, Report, Rng};
use rspirv::dr::{self, Builder};
use rspirv::spirv::FunctionControl;

#[derive(Clone, Debug)]
enum Call {
    BeginFunction,
    EndFunction,
    BeginBlock,
    BeginBlockNoLabel,
    FunctionParameter,
    Stub(usize),
    SelectFunction(Option<usize>),
    SelectBlock(Option<usize>),
    Pop,
    Id,
    /// select_function_by_name with name number i of `NAMES`
    SelectByName(usize),
    /// insert_types_global_values of a type declaration WITHOUT result id (a placeholder a caller may park there)
    InsertTgv(usize),
}

const NAMES: &[&str] = &["main", "f", ""];

#[derive(Clone, Copy, Debug, PartialEq)]
enum Res {
    Ok,
    Err,
    NoResult,
}

/// Structural invariant: the selection designates an existing function and block, or nothing.
fn selection_valid(b: &Builder) -> Result<(), String> {
    let m = b.module_ref();
    match (b.selected_function(), b.selected_block()) {
        (None, None) => Ok(()),
        (Some(f), None) => {
            if f < m.functions.len() {
                Ok(())
            } else {
                Err(format!("selected function {} of {}", f, m.functions.len()))
            }
        }
        (None, Some(bl)) => Err(format!("block {} selected without a selected function", bl)),
        (Some(f), Some(bl)) => {
            if f >= m.functions.len() {
                Err(format!("selected function {} of {}", f, m.functions.len()))
            } else if bl >= m.functions[f].blocks.len() {
                Err(format!("selected block {} of {} in function {}", bl, m.functions[f].blocks.len(), f))
            } else {
                Ok(())
            }
        }
    }
}

fn call_name(c: &Call) -> String {
    match c {
        Call::Stub(i) => method(*i).name.to_string(),
        other => format!("{:?}", other),
    }
}

/// Plays a history on a fresh builder, checking every rule after every call.
fn play(calls: &[Call], rng: &mut Rng, r: &mut Report, rp: &dyn Fn() -> Json, stage: &str) {
    play_opts(calls, rng, r, rp, stage, false)
}

/// `pool_always`: every id argument is drawn from the ids earlier calls returned (def-use scenario).
fn play_opts(calls: &[Call], rng: &mut Rng, r: &mut Report, rp: &dyn Fn() -> Json, stage: &str, pool_always: bool) {
    let sems = method_sems();
    let mut b = Builder::new();
    let mut marker = 5_000_000u32;
    let mut log: Vec<String> = vec![];
    // ids returned by earlier calls: used as arguments of later calls half of the time (def-use links,
    // e.g. an ext_inst whose set operand is the id of an earlier ext_inst_import)
    let mut returned: Vec<u32> = vec![];
    for (step, c) in calls.iter().enumerate() {
        let sf = b.selected_function().is_some();
        let sb = b.selected_block().is_some();
        let before = b.module_ref().clone();
        let sel_before = (b.selected_function(), b.selected_block());
        let name = call_name(c);
        let mut trace = String::new();
        let mut ctx = ArgCtx::default();
        if stage == "n" {
            ctx.tiny_strings = Some(NAMES);
        }
        if !returned.is_empty() && (step % 2 == 1 || pool_always) {
            ctx.small_pool = Some(returned.iter().rev().take(6).cloned().collect());
        }
        let mut got_word: Option<u32> = None;
        if let (Some(f), Some(bl)) = sel_before {
            if f < before.functions.len() && bl < before.functions[f].blocks.len() {
                ctx.block_len = before.functions[f].blocks[bl].instructions.len();
            }
        }
        let outcome = catch(|| -> Res {
            match c {
                Call::BeginFunction => match b.begin_function(1, None, FunctionControl::NONE, 2) {
                    Ok(id) => {
                        got_word = Some(id);
                        Res::Ok
                    }
                    Err(_) => Res::Err,
                },
                Call::SelectByName(i) => match b.select_function_by_name(NAMES[*i % NAMES.len()]) {
                    Ok(_) => Res::Ok,
                    Err(_) => Res::Err,
                },
                Call::InsertTgv(i) => {
                    let op = [rspirv::spirv::Op::TypeBool, rspirv::spirv::Op::TypeVoid, rspirv::spirv::Op::TypeSampler][*i % 3];
                    // every insertion point that is in range for the section's current length
                    let len = b.module_ref().types_global_values.len();
                    let k = (*i / 4) % (len + 1);
                    let ip = match *i % 4 {
                        0 => rspirv::dr::InsertPoint::End,
                        1 => rspirv::dr::InsertPoint::Begin,
                        2 => rspirv::dr::InsertPoint::FromEnd(k),
                        _ => rspirv::dr::InsertPoint::FromBegin(k),
                    };
                    b.insert_types_global_values(ip, dr::Instruction::new(op, None, None, vec![]));
                    Res::NoResult
                }
                Call::EndFunction => match b.end_function() {
                    Ok(_) => Res::Ok,
                    Err(_) => Res::Err,
                },
                Call::BeginBlock => match b.begin_block(None) {
                    Ok(_) => Res::Ok,
                    Err(_) => Res::Err,
                },
                Call::BeginBlockNoLabel => match b.begin_block_no_label(None) {
                    Ok(_) => Res::Ok,
                    Err(_) => Res::Err,
                },
                Call::FunctionParameter => match b.function_parameter(3) {
                    Ok(_) => Res::Ok,
                    Err(_) => Res::Err,
                },
                Call::Stub(i) => {
                    let call = method(*i).call.expect("stub");
                    let mut args = RandArgs::new(rng, &mut marker, &ctx, method(*i).name);
                    let out = call(&mut b, &mut args);
                    trace = show_trace(&args.trace);
                    got_word = out.word();
                    match out {
                        CallOut::ResWord(Ok(_)) | CallOut::ResUnit(Ok(_)) => Res::Ok,
                        CallOut::ResWord(Err(_)) | CallOut::ResUnit(Err(_)) => Res::Err,
                        _ => Res::NoResult,
                    }
                }
                Call::SelectFunction(i) => match b.select_function(*i) {
                    Ok(_) => Res::Ok,
                    Err(_) => Res::Err,
                },
                Call::SelectBlock(i) => match b.select_block(*i) {
                    Ok(_) => Res::Ok,
                    Err(_) => Res::Err,
                },
                Call::Pop => match b.pop_instruction() {
                    Ok(_) => Res::Ok,
                    Err(_) => Res::Err,
                },
                Call::Id => {
                    b.id();
                    Res::NoResult
                }
            }
        });
        if let Some(w) = got_word {
            returned.push(w);
        }
        log.push(format!("{}{}", name, if trace.is_empty() { String::new() } else { format!("({})", trace.chars().take(120).collect::<String>()) }));
        let hist = || log.join("; ");
        let key = match c {
            Call::Stub(i) => {
                let s = &sems[*i];
                match s.class {
                    MClass::BlockInst => "block-instruction".to_string(),
                    MClass::TerminatorFile => format!("terminator-file:{}", s.name.strip_prefix("insert_").unwrap_or(s.name)),
                    _ => s.name.to_string(),
                }
            }
            Call::SelectFunction(_) => "select_function".into(),
            Call::SelectBlock(_) => "select_block".into(),
            Call::InsertTgv(_) => "InsertTgv".into(),
            other => format!("{:?}", other),
        };
        let res = match outcome {
            Err(p) => {
                r.violation(format!("C12:panic:{}:{}", key, panic_key(&p)), format!("call #{} {} panicked: {} at {}\nselection before: {:?}\nhistory: {}", step, name, p.msg, p.loc, sel_before, hist()), rp().set("history", hist()));
                return;
            }
            Ok(x) => x,
        };
        let fail = |r: &mut Report, rule: &str, msg: String| {
            r.violation(format!("C12:{}:{}", rule, key), format!("call #{} {}: {}\nselection before {:?}, after {:?}\nhistory: {}", step, name, msg, sel_before, (b.selected_function(), b.selected_block()), hist()), rp().set("history", hist()));
        };
        // (2) selection validity
        if let Err(why) = selection_valid(&b) {
            fail(r, "selection-invalid", why);
            return;
        }
        // (3) iff rules on the observed pre-state
        let expect_err: Option<bool> = match c {
            Call::BeginFunction => Some(sf),
            Call::BeginBlock | Call::BeginBlockNoLabel => Some(!sf || sb),
            Call::FunctionParameter | Call::EndFunction => Some(!sf),
            Call::Stub(i) => match sems[*i].class {
                MClass::BlockInst | MClass::TerminatorFile => Some(!sb),
                _ => None,
            },
            _ => None,
        };
        if let Some(e) = expect_err {
            if res == Res::NoResult || (res == Res::Err) != e {
                fail(r, "iff-rule", format!("returned {:?}; with function selected = {} and block selected = {} the call must {}", res, sf, sb, if e { "fail" } else { "succeed" }));
                return;
            }
        }
        if res == Res::Ok {
            match c {
                Call::Stub(i) if matches!(sems[*i].class, MClass::TerminatorFile | MClass::BlockInst) && sems[*i].opname.as_deref().map(spec::is_block_terminator).unwrap_or(false) => {
                    if b.selected_block().is_some() {
                        fail(r, "terminator-leaves-block-open", "a successful terminator call left a block selected".into());
                        return;
                    }
                }
                Call::EndFunction => {
                    if b.selected_function().is_some() {
                        fail(r, "end_function-leaves-function-open", "a successful end_function left a function selected".into());
                        return;
                    }
                }
                Call::BeginFunction => {
                    if b.selected_function() != Some(b.module_ref().functions.len() - 1) {
                        fail(r, "begin_function-selection", "the new function is not the selected one".into());
                        return;
                    }
                }
                Call::BeginBlock | Call::BeginBlockNoLabel => {
                    let f = b.selected_function().unwrap();
                    if b.selected_block() != Some(b.module_ref().functions[f].blocks.len() - 1) {
                        fail(r, "begin_block-selection", "the new block is not the selected one".into());
                        return;
                    }
                }
                _ => {}
            }
        }
        // select_function / select_block: Ok iff the index designates an existing function / block of the selected
        // function (None always succeeds); then exactly that is selected (a newly selected function has no block
        // selected); a failed call leaves the selection alone
        match c {
            Call::SelectFunction(i) => {
                let n = before.functions.len();
                let want_ok = i.map(|k| k < n).unwrap_or(true);
                if (res == Res::Ok) != want_ok {
                    fail(r, "select-rule", format!("select_function({:?}) returned {:?} with {} function(s)", i, res, n));
                    return;
                }
                if res == Res::Ok && (b.selected_function() != *i || (i.is_some() && b.selected_block().is_some()) || (i.is_none() && b.selected_block().is_some())) {
                    fail(r, "select-result", format!("after select_function({:?}) the selection is ({:?}, {:?})", i, b.selected_function(), b.selected_block()));
                    return;
                }
                if res == Res::Err && (b.selected_function(), b.selected_block()) != sel_before {
                    fail(r, "failed-call-changed-selection", "the call returned an error but the selection changed".into());
                    return;
                }
            }
            Call::SelectBlock(i) => {
                let nb = sel_before.0.and_then(|f| before.functions.get(f)).map(|f| f.blocks.len());
                let want_ok = match (i, nb) {
                    (None, _) => true,
                    (Some(k), Some(nb)) => *k < nb,
                    (Some(_), None) => false,
                };
                if (res == Res::Ok) != want_ok {
                    fail(r, "select-rule", format!("select_block({:?}) returned {:?}; selected function {:?} has {:?} block(s)", i, res, sel_before.0, nb));
                    return;
                }
                if res == Res::Ok && (b.selected_block() != *i || b.selected_function() != sel_before.0) {
                    fail(r, "select-result", format!("after select_block({:?}) the selection is ({:?}, {:?})", i, b.selected_function(), b.selected_block()));
                    return;
                }
                if res == Res::Err && (b.selected_function(), b.selected_block()) != sel_before {
                    fail(r, "failed-call-changed-selection", "the call returned an error but the selection changed".into());
                    return;
                }
            }
            _ => {}
        }
        // select_function_by_name: Ok iff a function's definition id carries an OpName with that string; then
        // exactly such a function is selected and no block
        if let Call::SelectByName(i) = c {
            let want_name = NAMES[*i % NAMES.len()];
            let m = b.module_ref();
            let named: Vec<u32> = m.debug_names.iter().filter(|n| n.class.opcode == rspirv::spirv::Op::Name && matches!(n.operands.get(1), Some(dr::Operand::LiteralString(s)) if s == want_name)).filter_map(|n| match n.operands.first() { Some(dr::Operand::IdRef(t)) => Some(*t), _ => None }).collect();
            let candidates: Vec<usize> = m.functions.iter().enumerate().filter(|(_, f)| f.def_id().map(|d| named.contains(&d)).unwrap_or(false)).map(|(k, _)| k).collect();
            match res {
                Res::Ok => {
                    if !b.selected_function().map(|f| candidates.contains(&f)).unwrap_or(false) || b.selected_block().is_some() {
                        fail(r, "select-by-name", format!("select_function_by_name({:?}) returned Ok; functions whose definition is named so: {:?}", want_name, candidates));
                        return;
                    }
                }
                Res::Err => {
                    if !candidates.is_empty() {
                        fail(r, "select-by-name", format!("select_function_by_name({:?}) failed although function(s) {:?} carry that name", want_name, candidates));
                        return;
                    }
                    if (b.selected_function(), b.selected_block()) != sel_before {
                        fail(r, "failed-call-changed-selection", "the call returned an error but the selection changed".into());
                        return;
                    }
                }
                Res::NoResult => {}
            }
        }
        // (4) a failed call leaves the instructions of the module exactly as they were
        if res == Res::Err {
            if let Some(d) = rs::module_diff(&before, b.module_ref()) {
                fail(r, "failed-call-changed-module", format!("the call returned an error but the module changed: {}", d));
                return;
            }
            if matches!(c, Call::Stub(_) | Call::BeginFunction | Call::EndFunction | Call::BeginBlock | Call::BeginBlockNoLabel | Call::FunctionParameter | Call::Pop) && (b.selected_function(), b.selected_block()) != sel_before {
                fail(r, "failed-call-changed-selection", "the call returned an error but the selection changed".into());
                return;
            }
        }
        r.nontrivial(format!("{}:{}:{:?}:{:?}", stage, key.split(':').next().unwrap_or(""), (sf, sb), res));
        r.count("calls", 1);
    }
    let _ = dr::Module::new();
}

/// Indices whose low 32 (or 16) bits are small: a truncating comparison would accept them.
fn huge_index(rng: &mut Rng) -> usize {
    let low = rng.below(3);
    match rng.below(5) {
        0 => (1usize << 32) + low,
        1 => (1usize << 16) + low,
        2 => usize::MAX - low,
        3 => (1usize << 63) + low,
        _ => ((rng.below(1000) + 1) << 32) + low,
    }
}

fn pick_stub(rng: &mut Rng, pools: &Pools) -> usize {
    match rng.below(10) {
        0..=3 => *rng.pick(&pools.block),
        4..=5 => *rng.pick(&pools.term),
        6..=7 => *rng.pick(&pools.global),
        _ => *rng.pick(&pools.context),
    }
}

struct Pools {
    block: Vec<usize>,
    term: Vec<usize>,
    global: Vec<usize>,
    context: Vec<usize>,
}

fn pools() -> Pools {
    let sems = method_sems();
    let f = |c: MClass| -> Vec<usize> { sems.iter().filter(|m| m.class == c && method(m.idx).call.is_some()).map(|m| m.idx).collect() };
    let mut global = f(MClass::Global);
    global.extend(f(MClass::Type));
    Pools { block: f(MClass::BlockInst), term: f(MClass::TerminatorFile), global, context: f(MClass::Context) }
}

fn by_name(name: &str) -> usize {
    method_sems().iter().find(|m: &&MethodSem| m.name == name).map(|m| m.idx).unwrap_or_else(|| panic!("Builder method {} not found", name))
}

pub fn run(cfg: &Cfg, rep: &mut Report) {
    rep.rule = "Builder call histories on a fresh builder; after EVERY call: no panic, the selection designates an existing function/block or nothing, the Ok/Err outcome equals the iff-rule evaluated on the selection observed before the call, terminators/end_function close block/function, and a call that returned Err left the module (deep section-by-section comparison with a snapshot) and the selection unchanged. Exhaustive over all histories up to length 4 (quick) / 5 (thorough) of an 18-call alphabet, then random histories of 1..60 calls over all ~1150 generated call stubs (insert_ forms with in-range offsets), select_function/select_block with in- and out-of-range indices, pop_instruction, id; stage `names-scenario`: name / entry_point with strings from a three-name pool and ids earlier calls returned, select_function_by_name in every selection state (Ok iff a function's definition carries an OpName with that string; then that function and no block are selected), type requests after id-less type declarations were parked in the global section. distinct_nontrivial = distinct (call class, selection state before, outcome) triples".into();
    let pl = pools();
    let alphabet: Vec<Call> = vec![
        Call::BeginFunction,
        Call::EndFunction,
        Call::BeginBlock,
        Call::BeginBlockNoLabel,
        Call::Stub(by_name("ret")),
        Call::Stub(by_name("nop")),
        Call::FunctionParameter,
        Call::Stub(by_name("variable")),
        Call::Stub(by_name("line")),
        Call::SelectFunction(Some(0)),
        Call::SelectFunction(Some(1)),
        Call::SelectFunction(None),
        Call::SelectBlock(Some(0)),
        Call::SelectBlock(Some(1)),
        Call::SelectBlock(None),
        Call::Pop,
        Call::SelectBlock(Some(1usize << 32)),
        Call::SelectFunction(Some(1usize << 32)),
    ];
    let k = alphabet.len() as u64;
    let maxlen: u32 = if cfg.tier_thorough { 5 } else { 4 };
    let total: u64 = (1..=maxlen).map(|l| k.pow(l)).sum();
    let alpha = &alphabet;
    run_stage(cfg, rep, "exhaustive", total, |idx, rng, r| {
        let mut rem = idx;
        let mut len = 1u32;
        while rem >= k.pow(len) {
            rem -= k.pow(len);
            len += 1;
        }
        let mut calls = vec![];
        for _ in 0..len {
            calls.push(alpha[(rem % k) as usize].clone());
            rem /= k;
        }
        play(&calls, rng, r, &|| crate::util::replay_ref(cfg, "exhaustive", idx), "x");
    });
    let n = cfg.n(150_000, 20_000_000);
    let plr = &pl;
    run_stage(cfg, rep, "random", n, |idx, rng, r| {
        let len = rng.range(1, 60);
        let mut calls = vec![];
        let mut nf = 0usize;
        for _ in 0..len {
            let c = match rng.below(24) {
                0..=1 => {
                    nf += 1;
                    Call::BeginFunction
                }
                2..=3 => Call::EndFunction,
                4..=6 => Call::BeginBlock,
                7 => Call::BeginBlockNoLabel,
                8 => Call::FunctionParameter,
                9 => Call::SelectFunction(if rng.chance(1, 4) { None } else if rng.chance(1, 6) { Some(huge_index(rng)) } else { Some(rng.below(nf + 2)) }),
                10 => Call::SelectBlock(if rng.chance(1, 4) { None } else if rng.chance(1, 6) { Some(huge_index(rng)) } else { Some(rng.below(4)) }),
                11 => Call::Pop,
                12 => Call::Id,
                _ => Call::Stub(pick_stub(rng, plr)),
            };
            calls.push(c);
        }
        if idx < 2 {
            r.sample(Json::obj().set("history", calls.iter().take(14).map(|c| Json::from(call_name(c))).collect::<Vec<_>>()));
        }
        play(&calls, rng, r, &|| crate::util::replay_ref(cfg, "random", idx), "r");
    });
    // def-use scenario: extended-instruction imports (recognised, non-semantic, arbitrary names) followed
    // by ext_inst calls that name those imports, in every selection state
    let imp = by_name("ext_inst_import");
    let ext = by_name("ext_inst");
    let ret = by_name("ret");
    run_stage(cfg, rep, "ext-inst-scenario", cfg.n(6_000, 400_000), |idx, rng, r| {
        let mut calls = vec![];
        for _ in 0..rng.range(1, 4) {
            calls.push(Call::Stub(imp));
        }
        for _ in 0..rng.range(2, 12) {
            calls.push(match rng.below(10) {
                0 => Call::BeginFunction,
                1 => Call::BeginBlock,
                2 => Call::Stub(ret),
                3 => Call::EndFunction,
                4 => Call::Stub(imp),
                _ => Call::Stub(ext),
            });
        }
        play_opts(&calls, rng, r, &|| crate::util::replay_ref(cfg, "ext-inst-scenario", idx), "e", true);
    });
    // names: functions named through OpName and through OpEntryPoint (strings from a three-name pool, ids from
    // the ids earlier calls returned), looked up by name in every selection state; type requests after a
    // caller parked an id-less type declaration in the global section
    let (nm, ep, tb, tv) = (by_name("name"), by_name("entry_point"), by_name("type_bool"), by_name("type_void"));
    run_stage(cfg, rep, "names-scenario", cfg.n(20_000, 2_000_000), |idx, rng, r| {
        let mut calls = vec![];
        for _ in 0..rng.range(4, 24) {
            calls.push(match rng.below(16) {
                0 | 1 => Call::BeginFunction,
                2 | 3 => Call::BeginBlock,
                4 => Call::Stub(ret),
                5 => Call::EndFunction,
                6 | 7 => Call::Stub(nm),
                8 | 9 => Call::Stub(ep),
                10 | 11 => Call::SelectByName(rng.below(3)),
                12 => Call::SelectBlock(Some(rng.below(3))),
                13 => Call::InsertTgv(rng.below(48)),
                14 => Call::Stub(if rng.chance(1, 2) { tb } else { tv }),
                _ => Call::SelectFunction(Some(rng.below(3))),
            });
        }
        play_opts(&calls, rng, r, &|| crate::util::replay_ref(cfg, "names-scenario", idx), "n", true);
    });
    rep.extra.push(("x_exhaustive_histories".into(), Json::obj().set("alphabet", alphabet.len()).set("max_length", maxlen).set("histories", total)));
}
