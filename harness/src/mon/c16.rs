//! C16 – opcode classification predicates agree with the SPIR-V specification.

use crate::generated::decls;
use crate::spec::{self, Tri};
use crate::util::{run_stage, Cfg, Json, Report};
use rspirv::grammar::reflect;
use rspirv::spirv::Op;

type Pred = fn(Op) -> bool;
type SpecPred = fn(&str) -> Tri;

pub fn run(cfg: &Cfg, rep: &mut Report) {
    rep.rule = "exhaustive: every declared core opcode x every predicate of grammar::reflect compared with the hand-transcribed specification classes (three-valued; `unspecified` opcodes are not judged); derived predicates compared with the unions their documentation states; base classes checked pairwise disjoint; every block-level Builder method called on a fresh builder with an open block and the block-open state afterwards compared with the terminator predicate. distinct_nontrivial = distinct (predicate, opcode) pairs judged with a definite specification answer `in`, plus Builder methods judged".into();
    rep.assumptions.push("spec classes (harness/src/spec.rs) are hand-transcribed from SPIR-V 1.6 §2.4, §2.2.5, §3.52".into());
    rep.exhaustive = true;
    let base: Vec<(&str, Pred, SpecPred)> = vec![
        ("is_location_debug", reflect::is_location_debug as Pred, spec::is_location_debug as SpecPred),
        ("is_nonlocation_debug", reflect::is_nonlocation_debug, spec::is_nonlocation_debug),
        ("is_annotation", reflect::is_annotation, spec::is_annotation),
        ("is_type", reflect::is_type, spec::is_type),
        ("is_constant", reflect::is_constant, spec::is_constant),
        ("is_variable", reflect::is_variable, spec::is_variable),
        ("is_return", reflect::is_return, spec::is_return),
        ("is_abort", reflect::is_abort, spec::is_abort),
        ("is_branch", reflect::is_branch, spec::is_branch),
    ];
    let op_enum = decls::ENUMS.iter().find(|e| e.name == "Op").expect("Op enum");
    let n = op_enum.variants.len() as u64;
    run_stage(cfg, rep, "predicates", n, |idx, _rng, r| {
        let (name, v) = op_enum.variants[idx as usize];
        let op = match decls::op_by_value(v) {
            Some(o) => o,
            None => return,
        };
        let rp = || crate::util::replay_ref(cfg, "predicates", idx).set("opcode", name);
        let mut member_of: Vec<&str> = vec![];
        for (pn, p, sp) in &base {
            let got = p(op);
            if got {
                member_of.push(pn);
            }
            match sp(name) {
                Tri::Unspecified => r.count("unspecified_skipped", 1),
                Tri::In => {
                    if !got {
                        r.violation(format!("C16:{}:{}", pn, name), format!("{}(Op::{}) = false; the specification classifies Op{} as such", pn, name, name), rp());
                    }
                    r.nontrivial(format!("{}:{}", pn, name));
                }
                Tri::Out => {
                    if got {
                        r.violation(format!("C16:{}:{}", pn, name), format!("{}(Op::{}) = true; the specification does not classify Op{} as such", pn, name, name), rp());
                    }
                }
            }
            r.evaluations += 1;
        }
        if member_of.len() > 1 {
            r.violation(format!("C16:overlap:{}", name), format!("Op{} is accepted by several base predicates: {:?}", name, member_of), rp());
        }
        // derived predicates are the unions their documentation states
        let checks: [(&str, bool, bool); 3] = [
            ("is_debug", reflect::is_debug(op), reflect::is_location_debug(op) || reflect::is_nonlocation_debug(op)),
            ("is_return_or_abort", reflect::is_return_or_abort(op), reflect::is_return(op) || reflect::is_abort(op)),
            ("is_block_terminator", reflect::is_block_terminator(op), reflect::is_branch(op) || reflect::is_return(op) || reflect::is_abort(op)),
        ];
        for (dn, got, want) in checks {
            if got != want {
                r.violation(format!("C16:derived:{}:{}", dn, name), format!("{}(Op::{}) = {} but the union of its parts is {}", dn, name, got, want), rp());
            }
            r.evaluations += 1;
        }
        // block terminator against the specification directly
        let want = spec::is_block_terminator(name);
        if reflect::is_block_terminator(op) != want {
            r.violation(format!("C16:is_block_terminator:{}", name), format!("is_block_terminator(Op::{}) = {}; specification: {}", name, !want, want), rp());
        }
        if want {
            r.nontrivial(format!("is_block_terminator:{}", name));
        }
    });
    crate::mon::builder_term::run(cfg, rep);
    rep.sample(Json::obj().set("opcode", "TypeCooperativeMatrixKHR").set("spec", "is_type=in, all other base classes out").set("observed_is_type", reflect::is_type(Op::TypeCooperativeMatrixKHR)));
    rep.sample(Json::obj().set("opcode", "Kill").set("spec", "is_abort=in, block terminator").set("observed", reflect::is_abort(Op::Kill)));
}
