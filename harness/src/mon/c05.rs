//! C05 – the loader accepts exactly well-bracketed function/block structure and files by section.

use crate::geninst::{Form, Gen};
use crate::genmod::pools;
use crate::gram::{self, db, AInst};
use crate::loadcmp::compare_module;
use crate::model::{model_load, LoadErr, LoadOutcome, LoaderModel, Step};
use crate::spec::{self, Section, Sym};
use crate::util::{catch, run_stage, words_to_bytes, Cfg, Json, Report, Rng};
use rspirv::binary::{Consumer, ParseAction, ParseState};
use rspirv::dr;

fn err_class(e: &dr::Error) -> Option<LoadErr> {
    Some(match e {
        dr::Error::NestedFunction => LoadErr::NestedFunction,
        dr::Error::UnclosedFunction => LoadErr::UnclosedFunction,
        dr::Error::MismatchedFunctionEnd => LoadErr::MismatchedFunctionEnd,
        dr::Error::DetachedFunctionParameter => LoadErr::DetachedFunctionParameter,
        dr::Error::DetachedBlock => LoadErr::DetachedBlock,
        dr::Error::NestedBlock => LoadErr::NestedBlock,
        dr::Error::UnclosedBlock => LoadErr::UnclosedBlock,
        dr::Error::MismatchedTerminator => LoadErr::MismatchedTerminator,
        dr::Error::DetachedInstruction(_) => LoadErr::DetachedInstruction,
        _ => return None,
    })
}

/// The 14-symbol class alphabet of the exhaustive enumeration.
const ALPHABET: [&str; 14] = ["function", "function-end", "parameter", "label", "terminator", "block-inst", "var-undef", "line", "type-decl", "const-decl", "annotation", "debug-name", "exec-mode", "other-global"];

fn instantiate_symbol(rng: &mut Rng, gen: &mut Gen, sym: usize) -> AInst {
    let d = db();
    let p = pools();
    let pick_named = |rng: &mut Rng, names: &[&str]| -> usize { *d.by_name.get(*rng.pick(names)).unwrap() };
    let idx = match sym {
        0 => pick_named(rng, &["Function"]),
        1 => pick_named(rng, &["FunctionEnd"]),
        2 => pick_named(rng, &["FunctionParameter"]),
        3 => pick_named(rng, &["Label"]),
        4 => *rng.pick(&p.terminators),
        5 => loop {
            let i = *rng.pick(&p.block);
            if spec::classify(&d.insts[i].opname) == Sym::BlockInst {
                break i;
            }
        },
        6 => pick_named(rng, &["Variable", "Undef"]),
        7 => pick_named(rng, &["Line", "NoLine"]),
        8 => loop {
            let i = *rng.pick(&p.global[Section::TypesGlobalValues as usize]);
            if d.insts[i].opname.starts_with("Type") {
                break i;
            }
        },
        9 => loop {
            let i = *rng.pick(&p.global[Section::TypesGlobalValues as usize]);
            if !d.insts[i].opname.starts_with("Type") {
                break i;
            }
        },
        10 => *rng.pick(&p.global[Section::Annotations as usize]),
        11 => *rng.pick(&p.global[Section::DebugNames as usize]),
        12 => *rng.pick(&p.global[Section::ExecutionModes as usize]),
        _ => {
            let s = *rng.pick(&[Section::Capabilities, Section::Extensions, Section::ExtInstImports, Section::MemoryModel, Section::EntryPoints, Section::DebugStringSource, Section::DebugModuleProcessed]);
            *rng.pick(&p.global[s as usize])
        }
    };
    for _ in 0..10 {
        if let Some(i) = gen.inst(rng, &d.insts[idx], Form::Random) {
            gen.observe(&i);
            return i;
        }
    }
    gen.inst(rng, &d.insts[idx], Form::Min).expect("minimal form")
}

/// Steps the real Loader through `insts`, comparing state (H4), error class and final module.
fn step_through(insts: &[AInst], r: &mut Report, rp: &dyn Fn() -> Json, stage: &str) -> Option<String> {
    let show = || insts.iter().map(|i| format!("Op{}", i.opname())).collect::<Vec<_>>().join(" ");
    let fail = |r: &mut Report, rule: String, msg: String| {
        r.violation(format!("C05:{}", rule), format!("{}\nsequence: {}", msg, show()), rp().set("sequence", show()));
    };
    let src: Vec<dr::Instruction> = match insts.iter().map(|i| i.to_dr()).collect::<Option<Vec<_>>>() {
        Some(s) => s,
        None => return None,
    };
    let mut loader = dr::Loader::new();
    let mut model = LoaderModel::new();
    let _ = loader.initialize();
    let _ = loader.consume_header(dr::ModuleHeader::new(100));
    for (i, inst) in src.iter().enumerate() {
        let name = insts[i].opname();
        let before = model.state();
        let ms = model.step(&name);
        let act = match catch(|| loader.consume_instruction(inst.clone())) {
            Ok(a) => a,
            Err(p) => {
                fail(r, format!("panic:{}", crate::util::panic_key(&p)), format!("Loader::consume_instruction panicked at #{}: {}", i, p.msg));
                return None;
            }
        };
        r.seen("transitions", format!("{:?}/{}", before, ALPHABET.get(sym_of(&name)).copied().unwrap_or("?")));
        match (ms, act) {
            (Step::Unspecified, _) => return Some("unspecified".into()),
            (Step::Continue, ParseAction::Continue) => {
                let got = loader.verif_state();
                if got != model.state() {
                    fail(r, format!("state-after:{}", name), format!("after instruction #{} (Op{}) the loader is in state (function open, block open) = {:?}, the automaton in {:?}", i, name, got, model.state()));
                    return None;
                }
            }
            (Step::Err(classes), ParseAction::Error(e)) => {
                let cls = e.downcast_ref::<dr::Error>().and_then(err_class);
                match cls {
                    Some(c) if classes.contains(&c) => {
                        r.seen("error_variants", format!("{:?}", c));
                        return Some(format!("err:{:?}", c));
                    }
                    _ => {
                        fail(r, format!("error-class:{:?}-for-{}", classes.first(), name), format!("instruction #{} (Op{}) in state {:?}: expected {:?}, loader reports {}", i, name, before, classes, e));
                        return None;
                    }
                }
            }
            (Step::Err(classes), ParseAction::Continue) => {
                fail(r, format!("accepts:{:?}:{}", classes.first(), name), format!("instruction #{} (Op{}) in state {:?} must be rejected with {:?} but was accepted", i, name, before, classes));
                return None;
            }
            (Step::Continue, ParseAction::Error(e)) => {
                fail(r, format!("rejects:{}:{}", name, e.downcast_ref::<dr::Error>().and_then(err_class).map(|c| format!("{:?}", c)).unwrap_or_default()), format!("instruction #{} (Op{}) in state {:?} is well placed but the loader reports: {}", i, name, before, e));
                return None;
            }
            (_, ParseAction::Stop) => {
                fail(r, "stop".into(), "loader answered Stop".into());
                return None;
            }
        }
    }
    // end of stream
    let fin = loader.finalize();
    match (model.clone().finish(), fin) {
        (LoadOutcome::Ok(mm), ParseAction::Continue) => {
            let m = loader.module();
            if let Some((rule, msg)) = compare_module(&m, &mm, &src, model.memory_models <= 1) {
                fail(r, rule, msg);
                return None;
            }
            let _ = stage;
            Some("ok".into())
        }
        (LoadOutcome::Err { classes, .. }, ParseAction::Error(e)) => {
            let cls = e.downcast_ref::<dr::Error>().and_then(err_class);
            match cls {
                Some(c) if classes.contains(&c) => {
                    r.seen("error_variants", format!("{:?}", c));
                    Some(format!("err-end:{:?}", c))
                }
                _ => {
                    fail(r, format!("end-error-class:{:?}", classes.first()), format!("at end of stream expected {:?}, loader reports {}", classes, e));
                    None
                }
            }
        }
        (LoadOutcome::Err { classes, .. }, ParseAction::Continue) => {
            fail(r, format!("end-accepts:{:?}", classes.first()), format!("stream ends with open function/block ({:?}) but finalize() accepted", classes));
            None
        }
        (LoadOutcome::Ok(_), ParseAction::Error(e)) => {
            fail(r, "end-rejects".into(), format!("well-bracketed stream rejected at finalize(): {}", e));
            None
        }
        _ => None,
    }
}

fn sym_of(name: &str) -> usize {
    match spec::classify(name) {
        Sym::Function => 0,
        Sym::FunctionEnd => 1,
        Sym::Parameter => 2,
        Sym::Label => 3,
        Sym::Terminator => 4,
        Sym::BlockInst => 5,
        Sym::VarUndef => 6,
        Sym::Line => 7,
        Sym::Global(Section::TypesGlobalValues) => {
            if name.starts_with("Type") {
                8
            } else {
                9
            }
        }
        Sym::Global(Section::Annotations) => 10,
        Sym::Global(Section::DebugNames) => 11,
        Sym::Global(Section::ExecutionModes) => 12,
        Sym::Global(_) => 13,
        Sym::Unspecified => 99,
    }
}

pub fn run(cfg: &Cfg, rep: &mut Report) {
    rep.rule = "(i+) all ordered triples of ~36 structural instructions (each of the 22 terminators, merge instructions, line info, phi, variable, undef, nop, label, function boundaries, name, decorate) adjacent inside a function; (i) EXHAUSTIVE enumeration of all sequences up to length 4 (quick) / 6 (thorough) over a 14-symbol class alphabet {function, function-end, parameter, label, terminator, block instruction, variable/undef, line, type decl, constant decl, annotation, debug name, execution mode, other global}, each symbol instantiated with a random opcode of its class, stepped through Loader::consume_instruction with the H4 state compared with a 3-state automaton after every step, error variants compared with the class of the first offending instruction, and on success the module compared section by section, function by function, block by block; (ii) random sequences up to 60 instructions that instantiate EVERY opcode whose class the logical layout fixes, through load_words. distinct_nontrivial = distinct (state, symbol) transitions plus distinct opcodes filed per section".into();
    rep.assumptions.push("section assignment and block-termination classes are hand-transcribed from SPIR-V 1.6 (harness/src/spec.rs); vendor opcodes with unspecified placement are not in the alphabet".into());
    let maxlen: u32 = if cfg.tier_thorough { 6 } else { 4 };
    let k = ALPHABET.len() as u64;
    let total: u64 = (0..=maxlen).map(|l| k.pow(l)).sum();
    run_stage(cfg, rep, "exhaustive", total, |idx, rng, r| {
        let mut rem = idx;
        let mut len = 0u32;
        while rem >= k.pow(len) {
            rem -= k.pow(len);
            len += 1;
        }
        let mut gen = Gen::new(10);
        let mut insts = vec![];
        let mut word = String::new();
        for _ in 0..len {
            let s = (rem % k) as usize;
            rem /= k;
            word.push_str(&format!("{} ", ALPHABET[s]));
            insts.push(instantiate_symbol(rng, &mut gen, s));
        }
        let rp = || crate::util::replay_ref(cfg, "exhaustive", idx).set("word", word.clone());
        if let Some(kx) = step_through(&insts, r, &rp, "exhaustive") {
            r.nontrivial(format!("x:{}:{}", len, kx));
        }
    });
    // (i') every opcode whose section the layout fixes, alone at module scope and inside an open block:
    // it must load and be filed in its section (deterministic coverage of the section table)
    let d0 = db();
    let globals: Vec<usize> = d0.insts.iter().enumerate().filter(|(_, ri)| matches!(spec::classify(&ri.opname), Sym::Global(_))).map(|(i, _)| i).collect();
    let globals_ref = &globals;
    run_stage(cfg, rep, "every-global", globals.len() as u64 * 2, |idx, rng, r| {
        let op = globals_ref[(idx / 2) as usize];
        let inside = idx % 2 == 1;
        let mut gen = Gen::new(10);
        let mut insts = vec![];
        if inside {
            insts.push(instantiate_symbol(rng, &mut gen, 0));
            insts.push(instantiate_symbol(rng, &mut gen, 3));
        }
        let mut x = None;
        for _ in 0..10 {
            if let Some(i) = gen.inst(rng, &d0.insts[op], Form::Random) {
                x = Some(i);
                break;
            }
        }
        match x {
            Some(i) => insts.push(i),
            None => return,
        }
        if inside {
            insts.push(instantiate_symbol(rng, &mut gen, 4));
            insts.push(instantiate_symbol(rng, &mut gen, 1));
        }
        let rp = || crate::util::replay_ref(cfg, "every-global", idx);
        if let Some(kx) = step_through(&insts, r, &rp, "every-global") {
            r.nontrivial(format!("g:{}:{}:{}", d0.insts[op].opname, inside, kx));
        }
    });
    // (i+) every ordered triple of "structural" instructions adjacent inside a function: the 22 terminators,
    // merge instructions, line info, phi, variable, undef, nop, label, function boundaries. The automaton model
    // decides; instruction-pair or -triple special cases in the loader would show here
    {
        let mut names: Vec<String> = d0.insts.iter().filter(|ri| spec::is_block_terminator(&ri.opname)).map(|ri| ri.opname.clone()).collect();
        for n in ["SelectionMerge", "LoopMerge", "Line", "NoLine", "Nop", "Undef", "Variable", "Phi", "Label", "FunctionEnd", "Function", "FunctionParameter", "Name", "Decorate"] {
            names.push(n.to_string());
        }
        let k = names.len() as u64;
        let names_ref = &names;
        // each triple several times, behind different module-level preludes whose strings come from the
        // dictionary (extensions, source extensions, imports, names): structure must not depend on them
        let rounds = cfg.n(4, 64);
        run_stage(cfg, rep, "block-ngrams", k * k * k * rounds, |idx, rng, r| {
            let t = idx % (k * k * k);
            let trip = [(t / (k * k)) as usize, ((t / k) % k) as usize, (t % k) as usize];
            let mut gen = Gen::new(10);
            let mut insts = vec![];
            if idx >= k * k * k {
                for _ in 0..rng.range(1, 3) {
                    let name = *rng.pick(&["SourceExtension", "Extension", "ExtInstImport", "ModuleProcessed", "String", "SourceExtension"]);
                    if let Some(i) = gen.inst(rng, d0.inst(name), Form::Max) {
                        insts.push(i);
                    }
                }
            }
            insts.push(instantiate_symbol(rng, &mut gen, 0));
            insts.push(instantiate_symbol(rng, &mut gen, 3));
            for t in trip {
                match gen.inst(rng, d0.inst(&names_ref[t]), Form::Min) {
                    Some(i) => insts.push(i),
                    None => return,
                }
            }
            insts.push(instantiate_symbol(rng, &mut gen, 4));
            insts.push(instantiate_symbol(rng, &mut gen, 1));
            let rp = || crate::util::replay_ref(cfg, "block-ngrams", idx);
            if let Some(kx) = step_through(&insts, r, &rp, "block-ngrams") {
                r.nontrivial(format!("ngram:{}", kx));
            }
        });
    }
    // (i'') boundary-value modules (hundreds of parameters / functions, storage-class pairs ...)
    run_stage(cfg, rep, "scale", cfg.n(crate::scale::N_VARIANTS * 40, crate::scale::N_VARIANTS * 600), |idx, rng, r| {
        let variant = [0u64, 6, 8, 9, 10, 2, 7, 5, 1, 9, 10, 11, 6, 6][(idx % 14) as usize];
        let (label, insts) = crate::scale::scale_module(rng, variant);
        let rp = || crate::util::replay_ref(cfg, "scale", idx).set("label", label.clone());
        if insts.len() > 3000 {
            return;
        }
        if let Some(kx) = step_through(&insts, r, &rp, "scale") {
            r.nontrivial(format!("scale:{}:{}", label, kx));
        }
    });
    // (ii) random long sequences through the binary path, every layout-fixed opcode over the run
    let d = db();
    let fixed: Vec<usize> = d.insts.iter().enumerate().filter(|(_, ri)| !matches!(spec::classify(&ri.opname), Sym::Unspecified)).map(|(i, _)| i).collect();
    let n = cfg.n(fixed.len() as u64 * 20, fixed.len() as u64 * 4000);
    let fixed_ref = &fixed;
    run_stage(cfg, rep, "random", n, |idx, rng, r| {
        let must = fixed_ref[(idx % fixed_ref.len() as u64) as usize];
        let mut gen = Gen::new(10);
        let mut insts: Vec<AInst> = vec![];
        let len = rng.range(1, 60);
        // mostly well-bracketed skeleton with occasional structural damage
        let mut st = (false, false);
        let mut placed = false;
        while insts.len() < len {
            let must_sym = sym_of(&d.insts[must].opname);
            let want_block = must_sym == 4 || must_sym == 5;
            let s = if rng.chance(1, 40) {
                rng.below(14)
            } else {
                match st {
                    (false, _) => *rng.pick(&[0, 0, 8, 9, 10, 11, 12, 13, 6, 7, 8, 9]),
                    (true, false) => *rng.pick(&[3, 3, 3, 2, 1, 10, 11]),
                    (true, true) => *rng.pick(&[5, 5, 5, 5, 4, 4, 6, 7, 10, 8]),
                }
            };
            let inst = if !placed && (s == must_sym) && (!want_block || st.1 || rng.chance(1, 4)) {
                placed = true;
                let mut x = None;
                for _ in 0..10 {
                    if let Some(i) = gen.inst(rng, &d.insts[must], Form::Random) {
                        x = Some(i);
                        break;
                    }
                }
                match x {
                    Some(i) => {
                        gen.observe(&i);
                        i
                    }
                    None => instantiate_symbol(rng, &mut gen, s),
                }
            } else {
                instantiate_symbol(rng, &mut gen, s)
            };
            // track an approximate state for generation purposes only
            match sym_of(&inst.opname()) {
                0 => st = (true, false),
                1 => st = (false, false),
                3 => st.1 = st.0,
                4 => st.1 = false,
                _ => {}
            }
            insts.push(inst);
        }
        // close what is open (most of the time)
        if rng.chance(5, 6) {
            if st.1 {
                insts.push(instantiate_symbol(rng, &mut gen, 4));
            }
            if st.0 {
                insts.push(instantiate_symbol(rng, &mut gen, 1));
            }
        }
        let rp = || crate::util::replay_ref(cfg, "random", idx);
        // direct stepping (state hook) ...
        let k1 = step_through(&insts, r, &rp, "random");
        // ... and the binary path: load_words must agree with the automaton as well
        let mut w = gram::header(0x0001_0600, 0, gen.next_id);
        for i in &insts {
            w.extend(i.enc());
        }
        let (outcome, lm) = model_load(&insts);
        let show = || insts.iter().map(|i| format!("Op{}", i.opname())).collect::<Vec<_>>().join(" ");
        match catch(|| dr::load_words(&w)) {
            Err(p) => r.violation(format!("C05:panic:{}", crate::util::panic_key(&p)), format!("load_words panicked: {}\nsequence: {}", p.msg, show()), rp()),
            Ok(res) => match (&outcome, res) {
                (LoadOutcome::Unspecified { .. }, _) => {}
                (LoadOutcome::Ok(mm), Ok(m)) => {
                    let src: Vec<dr::Instruction> = insts.iter().filter_map(|i| i.to_dr()).collect();
                    if src.len() == insts.len() {
                        if let Some((rule, msg)) = compare_module(&m, mm, &src, lm.memory_models <= 1) {
                            r.violation(format!("C05:load_words:{}", rule), format!("{}\nsequence: {}", msg, show()), rp().set("binary", crate::util::hex_bytes(&words_to_bytes(&w))));
                        } else {
                            for (si, sec) in mm.sections.iter().enumerate() {
                                for i in sec {
                                    r.nontrivial(format!("filed:{}:{}", spec::SECTION_NAMES[si], insts[*i].opname()));
                                }
                            }
                            r.seen("opcodes_loaded", d.insts[must].opname.clone());
                        }
                    }
                }
                (LoadOutcome::Err { classes, .. }, Err(ParseState::ConsumerError(e))) => {
                    let cls = e.downcast_ref::<dr::Error>().and_then(err_class);
                    if !cls.map(|c| classes.contains(&c)).unwrap_or(false) {
                        r.violation(format!("C05:load_words:error-class:{:?}", classes.first()), format!("expected {:?}, load_words reports {}\nsequence: {}", classes, e, show()), rp());
                    }
                }
                (LoadOutcome::Ok(_), Err(e)) => r.violation(format!("C05:load_words:rejects:{}", crate::rs::state_name(&e)), format!("well-bracketed sequence rejected: {:?}\nsequence: {}", e, show()), rp().set("binary", crate::util::hex_bytes(&words_to_bytes(&w)))),
                (LoadOutcome::Err { classes, .. }, Ok(_)) => r.violation(format!("C05:load_words:accepts:{:?}", classes.first()), format!("ill-bracketed sequence accepted (expected {:?})\nsequence: {}", classes, show()), rp()),
                (LoadOutcome::Err { .. }, Err(e)) => r.violation(format!("C05:load_words:foreign-error:{}", crate::rs::state_name(&e)), format!("structural error expected, got {:?}\nsequence: {}", e, show()), rp()),
            },
        }
        if idx < 2 {
            r.sample(Json::obj().set("sequence", show()).set("automaton", format!("{:?}", match &outcome { LoadOutcome::Ok(_) => "accept".to_string(), LoadOutcome::Err { index, classes } => format!("reject at #{} {:?}", index, classes), LoadOutcome::Unspecified { index } => format!("unspecified at #{}", index) })));
        }
        if let Some(kx) = k1 {
            r.nontrivial(format!("r:{}", kx));
        }
    });
    let seen = rep.sets.get("transitions").map(|s| s.len()).unwrap_or(0);
    rep.extra.push(("x_transitions_seen".into(), Json::obj().set("seen", seen).set("possible", 3 * 14)));
    rep.exhaustive = true;
}
