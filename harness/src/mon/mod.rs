//! One monitor per property.
use crate::util::{Cfg, Report};

pub mod builder_term;
pub mod c01;
pub mod c02;
pub mod c03;
pub mod c04;
pub mod c05;
pub mod c06;
pub mod c07;
pub mod c08;
pub mod c10;
pub mod c09;
pub mod c11;
pub mod c12;
pub mod c13;
pub mod c14;
pub mod c15;
pub mod c16;
pub mod c17;
pub mod c18;
pub mod c19;
pub mod c20;

pub type Monitor = fn(&Cfg, &mut Report);

pub fn monitors() -> Vec<(&'static str, Monitor)> {
    vec![("C01", c01::run as Monitor), ("C02", c02::run as Monitor), ("C03", c03::run as Monitor), ("C04", c04::run as Monitor), ("C05", c05::run as Monitor), ("C06", c06::run as Monitor), ("C07", c07::run as Monitor), ("C08", c08::run as Monitor), ("C10", c10::run as Monitor), ("C09", c09::run as Monitor), ("C11", c11::run as Monitor), ("C12", c12::run as Monitor), ("C13", c13::run as Monitor), ("C14", c14::run as Monitor), ("C15", c15::run as Monitor), ("C16", c16::run as Monitor), ("C17", c17::run as Monitor), ("C18", c18::run as Monitor), ("C19", c19::run as Monitor), ("C20", c20::run as Monitor)]
}
