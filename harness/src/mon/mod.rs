//! One monitor per property.
use crate::util::{Cfg, Report};

pub mod builder_term;
pub mod c08;
pub mod c09;
pub mod c11;
pub mod c15;
pub mod c16;
pub mod c19;

pub type Monitor = fn(&Cfg, &mut Report);

pub fn monitors() -> Vec<(&'static str, Monitor)> {
    vec![("C08", c08::run as Monitor), ("C09", c09::run as Monitor), ("C11", c11::run as Monitor), ("C15", c15::run as Monitor), ("C16", c16::run as Monitor), ("C19", c19::run as Monitor)]
}
