//! One monitor per property.
use crate::util::{Cfg, Report};

pub type Monitor = fn(&Cfg, &mut Report);

pub fn monitors() -> Vec<(&'static str, Monitor)> {
    vec![]
}
