//! C01 – load-then-assemble reproduces every instruction of the input binary.

use crate::geninst::{Form, Gen, LitStyle};
use crate::genmod::{self, ModOpts};
use crate::gram::{db, AInst};
use crate::model::{model_load, LoadOutcome};
use crate::rs;
use crate::util::{catch, hex_words, run_stage, Cfg, Json, Report, Rng};
use rspirv::binary::Assemble;
use rspirv::dr;

fn masked_eq(a: &[u32], b: &[u32], mask: &[u32]) -> Option<usize> {
    if a.len() != b.len() {
        return Some(a.len().min(b.len()));
    }
    (0..a.len()).find(|i| (a[*i] ^ b[*i]) & mask[*i] != 0)
}

pub fn check_module(insts: &[AInst], version: u32, generator: u32, bound: u32, junk: Option<&mut Rng>, layout_ordered: bool, r: &mut Report, rp: &dyn Fn() -> Json) -> Option<&'static str> {
    let (words, mask, starts) = genmod::encode_module(version, generator, bound, insts, junk);
    let show = || insts.iter().map(|i| format!("Op{}", i.opname())).collect::<Vec<_>>().join(" ");
    let fail = |r: &mut Report, rule: String, msg: String| {
        r.violation(format!("C01:{}", rule), format!("{}\nsequence: {}", msg, show()), rp().set("binary", hex_words(&words)));
    };
    let m = match catch(|| dr::load_words(&words)) {
        Err(p) => {
            fail(r, format!("panic:{}", crate::util::panic_key(&p)), format!("load_words panicked: {}", p.msg));
            return None;
        }
        Ok(Err(_)) => {
            // not accepted: outside C01's quantifier (C03/C05 judge acceptance)
            r.count("not_accepted", 1);
            return Some("not-accepted");
        }
        Ok(Ok(m)) => m,
    };
    let (outcome, lm) = model_load(insts);
    let mm = match outcome {
        LoadOutcome::Ok(mm) => mm,
        // acceptance disagreements belong to C05; without a model result there is no expectation
        _ => {
            r.count("model_rejects_or_unspecified", 1);
            return Some("model-no-verdict");
        }
    };
    if lm.memory_models > 1 || lm.line_in_function_outside_block {
        r.count("outside_guarantee", 1);
        return Some("outside-guarantee");
    }
    let out = match catch(|| m.assemble()) {
        Ok(o) => o,
        Err(p) => {
            fail(r, format!("panic:{}", crate::util::panic_key(&p)), format!("assemble panicked: {}", p.msg));
            return None;
        }
    };
    // (i) header
    if out.len() < 5 || out[0] != crate::gram::MAGIC || (out[1] >> 8) & 0xffff != (version >> 8) & 0xffff || out[3] != bound {
        fail(r, "header".into(), format!("output header {} for input version {:#x} bound {}", hex_words(&out[..out.len().min(5)]), version, bound));
        return None;
    }
    // (ii,iii) the input's instructions, each re-encoded to the same words, grouped in layout order
    let order = mm.order();
    let slice_of = |i: usize| {
        let s = starts[i];
        let e = if i + 1 < starts.len() { starts[i + 1] } else { words.len() };
        (s, e)
    };
    let mut want: Vec<u32> = vec![];
    let mut want_mask: Vec<u32> = vec![];
    let mut want_src: Vec<usize> = vec![];
    for i in &order {
        let (s, e) = slice_of(*i);
        want.extend(&words[s..e]);
        want_mask.extend(&mask[s..e]);
        want_src.extend(std::iter::repeat(*i).take(e - s));
    }
    if let Some(pos) = masked_eq(&out[5..], &want, &want_mask) {
        // classify: count instructions in the output by splitting on word counts
        let mut n_out = 0;
        let mut p = 5;
        while p < out.len() {
            let wc = (out[p] >> 16) as usize;
            if wc == 0 {
                break;
            }
            p += wc;
            n_out += 1;
        }
        let rule = if n_out < insts.len() {
            "instruction-dropped".to_string()
        } else if n_out > insts.len() {
            "instruction-invented".to_string()
        } else if out.len() - 5 != want.len() {
            format!("reencoded-length:{}", want_src.get(pos).map(|i| insts[*i].opname()).unwrap_or_default())
        } else {
            format!("words-differ:{}", want_src.get(pos).map(|i| insts[*i].opname()).unwrap_or_default())
        };
        fail(r, rule, format!("output differs from the expected regrouping at word {} (instruction {:?}): output {} instructions / {} words, expected {} / {}\noutput:   {}\nexpected: {}", pos + 5, want_src.get(pos).map(|i| insts[*i].show()), n_out, out.len() - 5, insts.len(), want.len(), hex_words(&out[5..(pos + 12).min(out.len())]), hex_words(&want[..(pos + 7).min(want.len())])));
        return None;
    }
    // (iv) already in layout order: word-identical from the first instruction on
    if layout_ordered {
        if let Some(pos) = masked_eq(&out[5..], &words[5..], &mask[5..]) {
            fail(r, "layout-ordered-input-changed".into(), format!("input already in layout order comes back different at word {}", pos + 5));
            return None;
        }
    }
    // (v) loading the output again gives an equal module
    // One cause of a different reload is understood and recorded as a known finding (D15): regrouping moves a
    // numeric type declaration or a typed value definition in front of an OpSwitch / OpConstant that preceded it
    // in the input, so the same words are split into literals of another width (or rejected) the second time.
    let regrouping_changes_width = || -> bool {
        let widths = |seq: &mut dyn Iterator<Item = usize>| -> Vec<(usize, crate::model::Width)> {
            let mut tm = crate::model::TypeModel::new();
            let mut v = vec![];
            for i in seq {
                let x = &insts[i];
                let key = match x.opname().as_str() {
                    "Switch" if x.ops.len() > 2 => x.ops.first().and_then(|o| o.word()),
                    "Constant" | "SpecConstant" => x.rtype,
                    _ => None,
                };
                if let Some(k) = key {
                    v.push((i, tm.width(k)));
                }
                tm.observe(x);
            }
            v.sort_by_key(|(i, _)| *i);
            v
        };
        widths(&mut (0..insts.len())) != widths(&mut order.iter().copied())
    };
    match catch(|| dr::load_words(&out)) {
        Ok(Ok(m2)) => {
            if let Some(d) = rs::module_diff(&m, &m2) {
                if regrouping_changes_width() {
                    fail(r, "reload:literal-width-depends-on-regrouping".into(), format!("load(assemble(load(B))) differs: {}", d));
                } else {
                    fail(r, "reload-differs".into(), format!("load(assemble(load(B))) differs: {}", d));
                }
                return None;
            }
        }
        Ok(Err(e)) => {
            if regrouping_changes_width() {
                fail(r, "reload:literal-width-depends-on-regrouping".into(), format!("the assembled output is rejected on reload: {:?}", e));
            } else {
                fail(r, "reload-rejected".into(), format!("the assembled output is rejected on reload: {:?}", e));
            }
            return None;
        }
        Err(p) => {
            fail(r, format!("panic:{}", crate::util::panic_key(&p)), format!("reload panicked: {}", p.msg));
            return None;
        }
    }
    // load_bytes gives the same module as load_words
    if let Ok(Ok(m3)) = catch(|| dr::load_bytes(crate::util::words_to_bytes(&words))) {
        if let Some(d) = rs::module_diff(&m, &m3) {
            fail(r, "load_bytes-differs".into(), format!("load_bytes and load_words disagree: {}", d));
            return None;
        }
    }
    r.count("instructions_roundtripped", insts.len() as u64);
    Some("ok")
}

pub fn run(cfg: &Cfg, rep: &mut Report) {
    rep.rule = "modules from the table-directed generator (every one of the 787 opcodes over the run; sections in layout order or interleaved with module-level instructions dropped into function bodies; 0..3 functions; random non-zero bytes after string terminators in half of the inputs), loaded with load_words: output header (magic, version major.minor, bound), output words == the input's instructions regrouped by the loader automaton's logical-layout order with relative order preserved (word-wise under a mask that frees only post-NUL string padding), layout-ordered inputs word-identical from word 5 on, reload of the output equal section by section, load_bytes == load_words; stage `mutated`: every binary the loader accepts among the mutants of C03's generator (18 structured mutators, unknown header versions, ids defined twice, concatenations) comes back with the same total size, the same multiset of (word count, opcode) first words and the same multiset of instructions word for word (bytes after a string's NUL inside its last word excepted). distinct_nontrivial = distinct opcodes round-tripped x layout mode".into();
    rep.assumptions.push("expected grouping comes from the loader automaton written from SPIR-V 1.6 §2.4 (harness/src/spec.rs, model.rs); excluded as the property states: OpLine/OpNoLine inside a function outside a block, more than one OpMemoryModel".into());
    let d = db();
    let n_ops = d.insts.len() as u64;
    // boundary-value modules (counts, sizes, realistic imports ...)
    run_stage(cfg, rep, "scale", cfg.n(crate::scale::N_VARIANTS * 12, crate::scale::N_VARIANTS * 400), |idx, rng, r| {
        let (label, insts) = crate::scale::scale_module(rng, idx % crate::scale::N_VARIANTS);
        let rp = || crate::util::replay_ref(cfg, "scale", idx).set("label", label.clone());
        let mut junk_rng = Rng::new(rng.next());
        if check_module(&insts, 0x0001_0600, 0, 1 << 22, if idx % 2 == 0 { Some(&mut junk_rng) } else { None }, false, r, &rp) == Some("ok") {
            r.nontrivial(format!("scale:{}", label));
        }
    });
    // whatever the loader accepts - also binaries no generator of well-formed modules would write (mutants,
    // unknown versions, ids defined twice, concatenations) - must come back with every instruction: same
    // number of words in total, the same multiset of (word count, opcode) first words, the same multiset of
    // decoded instructions
    run_stage(cfg, rep, "mutated", cfg.n(30_000, 6_000_000), |idx, rng, r| {
        use crate::mutate::{self, Base};
        let small = rng.chance(1, 2);
        let b = crate::mon::c03::gen_base(rng, vec![], small);
        let m = (idx % (mutate::N_MUTATORS as u64)) as usize;
        let (bytes, label) = mutate::mutate(rng, &Base { words: &b.words, starts: &b.starts, insts: &b.insts }, m);
        if bytes.len() % 4 != 0 || bytes.len() < 20 {
            return;
        }
        let words: Vec<u32> = bytes.chunks(4).map(|c| u32::from_le_bytes([c[0], c[1], c[2], c[3]])).collect();
        let rp = || crate::util::replay_ref(cfg, "mutated", idx).set("binary", hex_words(&words)).set("mutation", label.clone());
        let module = match catch(|| dr::load_words(&words)) {
            Ok(Ok(m)) => m,
            Ok(Err(_)) => {
                r.count("mutants_not_accepted", 1);
                return;
            }
            Err(p) => {
                r.violation(format!("C01:panic:{}", crate::util::panic_key(&p)), format!("load_words panicked: {}", p.msg), rp());
                return;
            }
        };
        // split the input by word counts; note what the property excludes
        let firsts = |w: &[u32]| -> Option<Vec<u32>> {
            let mut v = vec![];
            let mut p = 5;
            while p < w.len() {
                let wc = (w[p] >> 16) as usize;
                if wc == 0 || p + wc > w.len() {
                    return None;
                }
                v.push(w[p]);
                p += wc;
            }
            Some(v)
        };
        let fin = match firsts(&words) {
            Some(f) => f,
            None => {
                r.violation("C01:accepted-unsplittable".to_string(), format!("the loader accepted a binary whose word counts do not tile it ({})", label), rp());
                return;
            }
        };
        let opc = |name: &str| d.inst(name).opcode as u32;
        let (mm, line, noline, func, fend, label_op) = (opc("MemoryModel"), opc("Line"), opc("NoLine"), opc("Function"), opc("FunctionEnd"), opc("Label"));
        let mut in_fn = false;
        let mut in_block = false;
        let mut excluded = fin.iter().filter(|f| *f & 0xffff == mm).count() > 1;
        for f in &fin {
            let o = f & 0xffff;
            if o == func {
                in_fn = true;
                in_block = false;
            } else if o == fend {
                in_fn = false;
                in_block = false;
            } else if o == label_op {
                in_block = true;
            } else if let Some(ri) = d.lookup(o as u16) {
                if crate::spec::is_block_terminator(&ri.opname) {
                    in_block = false;
                }
            }
            if (o == line || o == noline) && in_fn && !in_block {
                excluded = true;
            }
        }
        if excluded {
            r.count("mutants_outside_guarantee", 1);
            return;
        }
        let out = match catch(|| module.assemble()) {
            Ok(o) => o,
            Err(p) => {
                r.violation(format!("C01:panic:{}", crate::util::panic_key(&p)), format!("assemble panicked: {}", p.msg), rp());
                return;
            }
        };
        let fout = firsts(&out).unwrap_or_default();
        let (mut a, mut bq) = (fin.clone(), fout.clone());
        a.sort();
        bq.sort();
        if out.len() != words.len() || a != bq {
            let rule = if fout.len() < fin.len() { "instruction-dropped" } else if fout.len() > fin.len() { "instruction-invented" } else { "reencoded-length" };
            r.violation(format!("C01:mutated:{}", rule), format!("accepted binary ({}): input has {} instructions / {} words, load + assemble gives {} instructions / {} words", label, fin.len(), words.len(), fout.len(), out.len()), rp());
            return;
        }
        // the same multiset of instructions: word for word, or - where only the padding after a string
        // terminator differs - as decoded (decoding alone is not compared: when an id is defined twice the
        // regrouped output legitimately decodes context-dependent literals by another declaration)
        let slices = |w: &[u32]| -> Vec<Vec<u32>> {
            let mut v = vec![];
            let mut p = 5;
            while p < w.len() {
                let wc = (w[p] >> 16) as usize;
                v.push(w[p..p + wc].to_vec());
                p += wc;
            }
            v.sort();
            v
        };
        // match every input instruction with an output instruction that is word-identical, or identical up to
        // the bytes after a NUL inside one word (string padding, the one difference the property allows)
        let pad_equal = |x: &[u32], y: &[u32]| -> bool {
            x.len() == y.len()
                && x.iter().zip(y).all(|(a, b)| {
                    a == b || {
                        let ab = a.to_le_bytes();
                        let bb = b.to_le_bytes();
                        match ab.iter().position(|c| *c == 0) {
                            Some(p) => ab[..=p] == bb[..=p] && bb[p..].iter().all(|c| *c == 0),
                            None => false,
                        }
                    }
                })
        };
        let (sa, mut sb) = (slices(&words), slices(&out));
        let mut unmatched: Vec<Vec<u32>> = vec![];
        for x in &sa {
            if let Some(pos) = sb.iter().position(|y| y == x).or_else(|| sb.iter().position(|y| pad_equal(x, y))) {
                sb.swap_remove(pos);
            } else {
                unmatched.push(x.clone());
            }
        }
        if !unmatched.is_empty() || !sb.is_empty() {
            let only_in: Vec<String> = unmatched.iter().map(|x| format!("input only: {}", hex_words(x))).chain(sb.iter().map(|x| format!("output only: {}", hex_words(x)))).take(4).collect();
            r.violation("C01:mutated:instruction-changed".to_string(), format!("accepted binary ({}): the instructions of load + assemble are not those of the input: {}", label, only_in.join(" | ")), rp());
            return;
        }
        r.count("mutants_accepted_and_reproduced", 1);
        r.nontrivial(format!("mutated:m{}", m));
    });
    // enumerants the LIVE enumerations declare beyond the frozen reference (a grammar update), inside a carrier
    // instruction: if the loader accepts the module, assembling it must give back the very words
    {
        use crate::generated::decls;
        let carriers = crate::mon::c02::carriers();
        let mut extra: Vec<(crate::gram::K, u32)> = vec![];
        for (_, k) in decls::OPERAND_KINDS {
            if decls::kind_class(*k) == 0 && carriers.contains_key(k) {
                if let Some(e) = decls::ENUMS.iter().find(|e| e.name == crate::gram::kind_name(*k)) {
                    extra.extend(e.variants.iter().map(|(_, v)| *v).filter(|v| !d.enum_declared(*k, *v)).map(|v| (*k, v)));
                }
            }
        }
        let extra_ref = &extra;
        run_stage(cfg, rep, "live-enumerants", extra.len() as u64 * 4, |idx, rng, r| {
            let (k, v) = extra_ref[(idx / 4) as usize];
            let cs = &carriers[&k];
            let c = &cs[rng.below(cs.len())];
            let mut gen = Gen::with_id_policy(rng);
            let mut insts = crate::mon::c02::context(&mut gen);
            let mut forces = c.pre.clone();
            forces.push((k, v));
            gen.forces = forces;
            let x = match gen.inst(rng, &d.insts[c.op], Form::Max) {
                Some(x) if gen.forces.is_empty() => x,
                _ => return,
            };
            insts.push(x);
            let (words, _m, _s) = genmod::encode_module(0x0001_0600, 0, gen.next_id, &insts, None);
            let rp = || crate::util::replay_ref(cfg, "live-enumerants", idx).set("binary", hex_words(&words));
            if let Ok(Ok(m)) = catch(|| dr::load_words(&words)) {
                match catch(|| m.assemble()) {
                    Ok(out) if out[5..] == words[5..] => r.count("live_enumerants_reproduced", 1),
                    Ok(out) => {
                        let at = out.iter().zip(&words).position(|(a, b)| a != b).unwrap_or(0);
                        r.violation(format!("C01:live-enumerant:{}", crate::gram::kind_name(k)), format!("{} value {} (declared by the live tree only) in Op{}: accepted, but load + assemble changes word {} ({:#x} -> {:#x})", crate::gram::kind_name(k), v, d.insts[c.op].opname, at, words.get(at).copied().unwrap_or(0), out.get(at).copied().unwrap_or(0)), rp());
                    }
                    Err(p) => r.violation(format!("C01:panic:{}", crate::util::panic_key(&p)), format!("assemble panicked: {}", p.msg), rp()),
                }
            }
        });
    }
    let n = cfg.n(n_ops * 20, n_ops * 6000);
    run_stage(cfg, rep, "modules", n, |idx, rng, r| {
        let must = (idx % n_ops) as usize;
        let layout = idx % 3 != 2;
        let mut gen = Gen::with_id_policy(rng);
        gen.lit = if rng.chance(1, 2) { LitStyle::Random } else { LitStyle::Marker };
        let o = ModOpts { max_functions: 3, max_blocks: 3, max_block_insts: 4, max_per_section: 3, layout_order: layout, must: vec![must, rng.below(d.insts.len())], memory_model: rng.chance(4, 5) };
        let sk = genmod::skeleton(rng, &o);
        let insts = genmod::instantiate(rng, &mut gen, &sk, Form::Random);
        let version = genmod::random_version(rng);
        let generator = rng.u32();
        let bound = if rng.chance(1, 2) { gen.next_id } else { rng.u32() };
        let rp = || crate::util::replay_ref(cfg, "modules", idx);
        let mut junk_rng = Rng::new(rng.next());
        let junk = if idx % 2 == 0 { Some(&mut junk_rng) } else { None };
        if idx < 2 {
            r.sample(Json::obj().set("layout_ordered", layout).set("instructions", insts.len()).set("sequence", insts.iter().take(14).map(|i| Json::from(format!("Op{}", i.opname()))).collect::<Vec<_>>()));
        }
        match check_module(&insts, version, generator, bound, junk, layout, r, &rp) {
            Some("ok") => {
                r.seen("opcodes_roundtripped", d.insts[must].opname.clone());
                r.nontrivial(format!("{}:{}", d.insts[must].opname, if layout { "layout" } else { "permuted" }));
            }
            Some(other) => r.count(other, 1),
            None => {}
        }
    });
}
