//! C04 – parsing, loading, assembling and disassembling never panic on any input.

use crate::gram::{self, db};
use crate::mon::c03::gen_base;
use crate::mutate::{self, Base};
use crate::util::{catch, hex_bytes, panic_key, run_stage, words_to_bytes, Cfg, Json, Panic, Report, Rng};
use rspirv::binary::{Assemble, Disassemble};
use rspirv::verif;

const INTERESTING: &[u32] = &[
    0,
    1,
    2,
    0xffff_ffff,
    0x0001_0000,
    0x0002_0000,
    0xffff_0000,
    0x0003_0005, // OpName wc=3
    0x0004_0005,
    0xffff_0005,
    0x0004_002b, // OpConstant wc=4
    0x0005_002b,
    0x0004_0015, // OpTypeInt
    0x0003_0016, // OpTypeFloat
    0x0004_0034, // OpSpecConstantOp
    0x0006_0034,
    0x0003_00fb, // OpSwitch
    0x0005_00fb,
    0x0002_0011, // OpCapability
    0x0003_0047, // OpDecorate
    0x0005_0047,
    0x0000_002b,
    0x0000_00fb,
    0x0000_0034,
    0x0000_0040,
    0x0000_0020,
    0x6162_6364,
    0x0061_6263,
];

/// Runs every entry point the property names on `bytes`; reports the first panic.
pub fn exercise(bytes: &[u8], r: &mut Report, rp: &dyn Fn() -> Json, label: &str, miri: bool) -> bool {
    // exact-size heap copy: sanitizer red zones sit directly after the buffer
    let boxed: Box<[u8]> = bytes.to_vec().into_boxed_slice();
    let b: &[u8] = &boxed;
    let report = |r: &mut Report, what: &str, p: &Panic| {
        let rule = if p.budget { format!("non-termination:{}", what) } else { format!("panic:{}", panic_key(p)) };
        r.violation(format!("C04:{}", rule), format!("{} panicked: {} at {}\ninput ({}): {}", what, p.msg, p.loc, label, hex_bytes(&b[..b.len().min(300)])), rp().set("binary", hex_bytes(b)).set("label", label));
    };
    let budget = 16 * (b.len() as u64 / 4) + 256;
    // 1. parse_bytes with a recording consumer, hook events on
    verif::record(true);
    let _ = verif::drain();
    verif::set_step_budget(Some(budget));
    let mut rec = crate::rs::RecConsumer::default();
    let res = catch(|| rspirv::binary::parse_bytes(b, &mut rec).is_ok());
    verif::set_step_budget(None);
    let ev = verif::drain();
    verif::record(false);
    let parsed_ok = match res {
        Err(p) => {
            report(r, "parse_bytes", &p);
            return false;
        }
        Ok(ok) => ok,
    };
    // in-situ decoder accounting during the real parse (H2): no request is entered beyond the buffer,
    // and under a limit of n words set at offset o never more than n words have been consumed while
    // the remaining limit never exceeds n minus the words consumed
    let mut window: Option<(usize, usize)> = None;
    for e in &ev {
        if let verif::Event::Dec { offset, len, req, limit } = e {
            match req {
                verif::DecReq::SetLimit(n) => window = Some((*offset, *n)),
                verif::DecReq::ClearLimit => window = None,
                _ => {
                    if let (Some((o, n)), Some(l)) = (window, limit) {
                        let used = offset.saturating_sub(o) / 4;
                        if used > n || l + used > n {
                            r.violation("C04:limit-accounting".to_string(), format!("decoder request {:?} entered at offset {} with {} word(s) of limit left; the limit of {} words was set at offset {}\ninput ({}): {}", req, offset, l, n, o, label, hex_bytes(&b[..b.len().min(300)])), rp().set("binary", hex_bytes(b)));
                            return false;
                        }
                    }
                }
            }
            if offset > len {
                r.violation("C04:read-beyond-buffer".to_string(), format!("decoder request {:?} entered at offset {} of a {}-byte buffer\ninput ({}): {}", req, offset, len, label, hex_bytes(&b[..b.len().min(300)])), rp().set("binary", hex_bytes(b)));
                return false;
            }
        }
    }
    r.count("hook_decoder_events", ev.len() as u64);
    // 2. parse_words (the unsafe reinterpretation) on word-aligned inputs
    if b.len() % 4 == 0 {
        let words: Box<[u32]> = b.chunks(4).map(|c| u32::from_le_bytes([c[0], c[1], c[2], c[3]])).collect::<Vec<_>>().into_boxed_slice();
        verif::set_step_budget(Some(budget));
        let mut rec2 = crate::rs::RecConsumer::default();
        let res2 = catch(|| rspirv::binary::parse_words(&words[..], &mut rec2).is_ok());
        verif::set_step_budget(None);
        match res2 {
            Err(p) => {
                report(r, "parse_words", &p);
                return false;
            }
            Ok(ok2) => {
                if ok2 != parsed_ok || rec2.insts != rec.insts {
                    r.violation("C04:parse_words-differs".to_string(), format!("parse_words and parse_bytes disagree on the same data ({})", label), rp().set("binary", hex_bytes(b)));
                    return false;
                }
            }
        }
        r.count("parse_words_runs", 1);
    }
    // 2b. a well-behaved consumer may itself parse or load (a linking consumer): nested parses started from
    //     inside the header / first-instruction callbacks
    if b.len() <= 8192 && (b.len() / 4 + b.first().copied().unwrap_or(0) as usize) % 4 == 0 {
        struct Nesting<'a> {
            bytes: &'a [u8],
            depth_left: u32,
            inner_insts: usize,
        }
        impl<'a> rspirv::binary::Consumer for Nesting<'a> {
            fn initialize(&mut self) -> rspirv::binary::ParseAction {
                rspirv::binary::ParseAction::Continue
            }
            fn finalize(&mut self) -> rspirv::binary::ParseAction {
                rspirv::binary::ParseAction::Continue
            }
            fn consume_header(&mut self, _h: rspirv::dr::ModuleHeader) -> rspirv::binary::ParseAction {
                if self.depth_left > 0 {
                    let mut inner = Nesting { bytes: self.bytes, depth_left: self.depth_left - 1, inner_insts: 0 };
                    let _ = rspirv::binary::parse_bytes(self.bytes, &mut inner);
                    let _ = rspirv::dr::load_bytes(self.bytes);
                }
                rspirv::binary::ParseAction::Continue
            }
            fn consume_instruction(&mut self, _i: rspirv::dr::Instruction) -> rspirv::binary::ParseAction {
                self.inner_insts += 1;
                if self.inner_insts == 1 && self.depth_left > 0 {
                    let mut inner = crate::rs::RecConsumer::default();
                    let _ = rspirv::binary::parse_bytes(self.bytes, &mut inner);
                }
                rspirv::binary::ParseAction::Continue
            }
        }
        let mut outer = Nesting { bytes: b, depth_left: 2, inner_insts: 0 };
        match catch(|| rspirv::binary::parse_bytes(b, &mut outer).is_ok()) {
            Err(p) => {
                report(r, "nested parse_bytes", &p);
                return false;
            }
            Ok(ok3) => {
                if ok3 != parsed_ok || outer.inner_insts != rec.insts.len() {
                    r.violation("C04:nested-parse-differs".to_string(), format!("a parse whose consumer parses the same data inside its callbacks ends differently ({})", label), rp().set("binary", hex_bytes(b)));
                    return false;
                }
            }
        }
        r.count("nested_parse_runs", 1);
    }
    if miri {
        return true;
    }
    // 3. loader, then assemble + disassemble of every accepted module
    verif::set_step_budget(Some(budget));
    let loaded = catch(|| rspirv::dr::load_bytes(b));
    verif::set_step_budget(None);
    match loaded {
        Err(p) => {
            report(r, "load_bytes", &p);
            false
        }
        Ok(Err(_)) => true,
        Ok(Ok(m)) => {
            r.count("modules_loaded", 1);
            if let Err(p) = catch(|| m.assemble()) {
                report(r, "assemble", &p);
                return false;
            }
            match catch(|| m.disassemble()) {
                Err(p) => {
                    report(r, "disassemble", &p);
                    false
                }
                Ok(t) => {
                    r.count("disassembled_bytes", t.len() as u64);
                    true
                }
            }
        }
    }
}

pub fn directed_inputs() -> Vec<(String, Vec<u8>)> {
    let d = db();
    let h = gram::header(0x0001_0600, 0, 100);
    let mut out: Vec<(String, Vec<u8>)> = vec![];
    let mk = |ws: &[u32]| {
        let mut w = h.clone();
        w.extend_from_slice(ws);
        words_to_bytes(&w)
    };
    // declared word count reaching past the end in front of a string (D1)
    out.push(("OpName wc=10 at end".into(), mk(&[(10 << 16) | 5, 1, 0x6162_6364])));
    out.push(("OpName wc=0xffff at end".into(), mk(&[(0xffff << 16) | 5, 1, 0x6162_6364])));
    out.push(("OpExtension wc=3 one word".into(), mk(&[(3 << 16) | 10, 0x6162_6364])));
    // partial last word containing the terminator (D2)
    let mut b = mk(&[(3 << 16) | 5, 1]);
    b.extend_from_slice(&[b'a', 0, 0]);
    out.push(("OpName with partial last word".into(), b));
    // spec constant payloads (D3, D4, D5)
    for payload in ["Constant", "SpecConstant", "SpecConstantOp", "Switch", "IAdd", "VectorShuffle", "Nop", "Decorate", "ExtInst", "Name", "Source"] {
        let n = d.inst(payload).opcode as u32;
        for extra in 0..5u32 {
            let mut ws = vec![((4 + extra) << 16) | 52, 1, 2, n];
            ws.extend((0..extra).map(|i| i + 3));
            out.push((format!("OpSpecConstantOp payload Op{} +{}", payload, extra), mk(&ws)));
        }
    }
    out.push(("OpSpecConstantOp payload 0x1007e".into(), mk(&[(5 << 16) | 52, 1, 2, 0x1007e, 3])));
    // constants of undeclared / non-numeric / unsupported types, then disassembly (D6)
    out.push(("OpConstant of undeclared type".into(), mk(&[(4 << 16) | 43, 9, 10, 42])));
    out.push(("OpConstant of bool type".into(), mk(&[(2 << 16) | 20, 9, (4 << 16) | 43, 9, 10, 42])));
    out.push(("OpConstant of vector type".into(), mk(&[(4 << 16) | 21, 8, 32, 0, (4 << 16) | 23, 9, 8, 4, (4 << 16) | 43, 9, 10, 42])));
    out.push(("OpConstant int 32 then 64-bit".into(), mk(&[(4 << 16) | 21, 8, 64, 1, (5 << 16) | 43, 8, 10, 42, 43])));
    out.push(("OpSpecConstant of undeclared type".into(), mk(&[(4 << 16) | 50, 9, 10, 42])));
    // constant typed by a *value* id and by a forward-declared type
    out.push(("OpConstant typed by later OpTypeInt".into(), mk(&[(4 << 16) | 43, 8, 10, 42, (4 << 16) | 21, 8, 32, 0])));
    // switch with odd selectors
    out.push(("OpSwitch selector unknown".into(), mk(&[(5 << 16) | 251, 1, 2, 3, 4])));
    out.push(("OpSwitch odd case words".into(), mk(&[(4 << 16) | 251, 1, 2, 3])));
    // ext inst with and without import
    out.push(("OpExtInst without import".into(), mk(&[(6 << 16) | 12, 1, 2, 3, 4, 5])));
    for num in [0u32, 1, 81, 82, 161, 162, 0x1_0000, u32::MAX] {
        // (operand counts 0 and 1: the word count must match, or the terminator is swallowed and nothing loads)
        out.push((format!("GLSL import + OpExtInst {} inside a block", num), mk(&[(6 << 16) | 11, 3, 0x4c534c47, 0x6474732e, 0x3035342e, 0, (5 << 16) | 54, 2, 7, 0, 8, (2 << 16) | 248, 9, (5 << 16) | 12, 1, 10, 3, num, (1 << 16) | 253, (1 << 16) | 56])));
        out.push((format!("GLSL import + OpExtInst {} with one operand inside a block", num), mk(&[(6 << 16) | 11, 3, 0x4c534c47, 0x6474732e, 0x3035342e, 0, (5 << 16) | 54, 2, 7, 0, 8, (2 << 16) | 248, 9, (6 << 16) | 12, 1, 10, 3, num, 11, (1 << 16) | 253, (1 << 16) | 56])));
        // the same through an OpenCL.std import
        out.push((format!("OpenCL import + OpExtInst {} inside a block", num), mk(&[(5 << 16) | 11, 3, 0x6e65704f, 0x732e4c43, 0x00006474, (5 << 16) | 54, 2, 7, 0, 8, (2 << 16) | 248, 9, (6 << 16) | 12, 1, 10, 3, num, 11, (1 << 16) | 253, (1 << 16) | 56])));
    }
    out.push(("GLSL import + OpExtInst unknown number".into(), mk(&[(6 << 16) | 11, 3, 0x4c534c47, 0x6474732e, 0x3035342e, 0, (6 << 16) | 12, 1, 2, 3, 999, 5])));
    // constants (one and two literal words) and a switch typed by integer / float types of every edge width
    for width in [0u32, 1, 7, 8, 9, 15, 16, 17, 24, 31, 32, 33, 48, 63, 64, 65, 128, 0x7fff_ffff, 0x8000_0000, 0xffff_ffe0, 0xffff_ffe1, 0xffff_fff0, u32::MAX] {
        for float in [false, true] {
            let ty = if float { vec![(3 << 16) | 22, 8, width] } else { vec![(4 << 16) | 21, 8, width, 0] };
            for nlit in [1u32, 2] {
                let mut ws = ty.clone();
                ws.push(((3 + nlit) << 16) | 43);
                ws.extend([8, 10]);
                ws.extend((0..nlit).map(|i| 0x30 + i));
                out.push((format!("OpConstant of {} width {:#x} with {} word(s)", if float { "float" } else { "int" }, width, nlit), mk(&ws)));
            }
        }
    }
    // OpTypeFloat with every FP-encoding value the LIVE enumeration declares (a grammar update adds them), plus
    // neighbours, in widths 8..64, followed by small constants of that type
    let fpe: Vec<u32> = crate::generated::decls::ENUMS.iter().find(|e| e.name == "FPEncoding").map(|e| e.variants.iter().map(|(_, v)| *v).collect()).unwrap_or_default();
    let mut enc: Vec<u32> = fpe.iter().flat_map(|v| [*v, v.wrapping_add(1), v.wrapping_sub(1)]).chain([0u32, 1, 4214, 4215, 4216]).collect();
    enc.sort();
    enc.dedup();
    for e in enc {
        for width in [8u32, 16, 32, 64] {
            for lit in [0u32, 0x04, 0x30, 0x38, 0x7f, 0xff, 0x3c00, 0xffff_ffff] {
                let mut ws = vec![(4 << 16) | 22, 8, width, e];
                if width == 64 {
                    ws.extend([(5 << 16) | 43, 8, 10, lit, lit]);
                } else {
                    ws.extend([(4 << 16) | 43, 8, 10, lit]);
                }
                out.push((format!("OpTypeFloat {} encoding {} + constant {:#x}", width, e, lit), mk(&ws)));
            }
        }
    }
    // a numeric type id declared twice with different widths / kinds, a constant in between (sized by the
    // first declaration while a reader that scans all declarations first sees the last), literal patterns
    // with and without a non-zero high word
    let decl = |float: bool, width: u32| -> Vec<u32> { if float { vec![(3 << 16) | 22, 8, width] } else { vec![(4 << 16) | 21, 8, width, 1] } };
    for (f1, w1) in [(true, 64u32), (false, 64), (true, 32), (false, 32), (true, 16), (false, 8)] {
        for (f2, w2) in [(true, 64u32), (true, 32), (true, 16), (false, 64), (false, 32), (false, 16), (false, 0), (true, 0), (false, 128)] {
            if (f1, w1) == (f2, w2) {
                continue;
            }
            for lit in [[0u32, 0x3ff8_0000], [0xffff_ffff, 0xffff_ffff], [1, 0]] {
                let mut ws = decl(f1, w1);
                if w1 == 64 {
                    ws.extend([(5 << 16) | 43, 8, 10, lit[0], lit[1]]);
                } else {
                    ws.extend([(4 << 16) | 43, 8, 10, lit[0] ^ lit[1]]);
                }
                ws.extend(decl(f2, w2));
                out.push((format!("type %8 declared as {}{} then as {}{} around a constant {:x?}", if f1 { "float" } else { "int" }, w1, if f2 { "float" } else { "int" }, w2, lit), mk(&ws)));
            }
        }
    }
    out
}

pub fn run(cfg: &Cfg, rep: &mut Report) {
    rep.rule = "every input is run through parse_bytes (recording consumer, H1 step budget 16*words+256 as the termination verdict, H2 decoder events checked for offsets beyond the buffer), parse_words (word-aligned inputs, exact-size boxed slices), a consumer that parses and loads the same data inside its own callbacks (nested, depth 2), load_bytes and, for accepted modules, assemble + disassemble, each under catch_unwind: well-formed modules of every opcode, 16 structured mutators, pure noise of lengths 0..4096, all sequences of up to 3 'interesting' words after a header, directed inputs (word counts past the end before strings, every opcode as OpSpecConstantOp payload, constants of undeclared/non-numeric/unsupported types), decoder request scripts with limits up to usize::MAX. distinct_nontrivial = distinct (input class, outcome) pairs".into();
    let miri = cfg.mode == "miri";
    if miri {
        // Miri stage: inputs come from the corpus file written by the debug stage, so that the (slow,
        // irrelevant) generators and the reference database are not interpreted.
        let path = cfg.corpus.clone().unwrap_or_default();
        let text = match std::fs::read_to_string(&path) {
            Ok(t) => t,
            Err(e) => {
                rep.inconclusive.push(format!("cannot read corpus {}: {}", path, e));
                return;
            }
        };
        // decode lazily: hex decoding is expensive under Miri, each shard only decodes its share
        let items: Vec<(&str, &str)> = text.lines().filter_map(|l| l.split_once('\t')).collect();
        let items_ref = &items;
        run_stage(cfg, rep, "corpus", items.len() as u64, |idx, _rng, r| {
            let (label, hex) = items_ref[idx as usize];
            let bytes = &crate::util::unhex_bytes(hex);
            let rp = || crate::util::replay_ref(cfg, "corpus", idx).set("binary", hex);
            if exercise(bytes, r, &rp, label, true) {
                r.nontrivial(format!("corpus:{}", label.split(' ').next().unwrap_or("")));
            }
        });
        rep.sample(Json::obj().set("miri_corpus_inputs", items.len()).set("what", "parse_bytes and parse_words (unsafe slice reinterpretation) interpreted by Miri"));
        return;
    }
    let d = db();
    let n_ops = d.insts.len() as u64;

    // ---- directed
    let directed = directed_inputs();
    let directed_ref = &directed;
    run_stage(cfg, rep, "directed", directed.len() as u64, |idx, _rng, r| {
        let (label, bytes) = &directed_ref[idx as usize];
        let rp = || crate::util::replay_ref(cfg, "directed", idx);
        if exercise(bytes, r, &rp, label, miri) {
            r.nontrivial(format!("directed:{}", label));
        }
    });
    // every opcode as spec constant payload with 0..6 trailing words
    run_stage(cfg, rep, "spec-payload", if miri { 64 } else { n_ops * 7 }, |idx, rng, r| {
        let (op, extra) = if miri { (rng.below(n_ops as usize), rng.below(7) as u32) } else { ((idx / 7) as usize, (idx % 7) as u32) };
        let mut w = gram::header(0x0001_0000, 0, 10);
        w.push(((4 + extra) << 16) | 52);
        w.extend([1, 2, d.insts[op].opcode as u32]);
        for _ in 0..extra {
            w.push(rng.word());
        }
        let rp = || crate::util::replay_ref(cfg, "spec-payload", idx);
        exercise(&words_to_bytes(&w), r, &rp, &format!("spec payload Op{}", d.insts[op].opname), miri);
        r.nontrivial(format!("payload:{}", d.insts[op].opname));
    });
    // every opcode with an oversized word count at the end of the stream, cut at every word
    run_stage(cfg, rep, "oversized-wc", if miri { 48 } else { n_ops }, |idx, rng, r| {
        let op = if miri { rng.below(n_ops as usize) } else { idx as usize };
        let b = gen_base(rng, vec![op], true);
        let j = b.insts.iter().rposition(|i| i.opcode == d.insts[op].opcode);
        if let Some(j) = j {
            let s = b.starts[j];
            let e = if j + 1 < b.starts.len() { b.starts[j + 1] } else { b.words.len() };
            let mut w = b.words[..e].to_vec();
            let big = *rng.pick(&[0xffffu32, (e - s) as u32 + 1, (e - s) as u32 + 7]);
            w[s] = (big << 16) | (w[s] & 0xffff);
            let rp = || crate::util::replay_ref(cfg, "oversized-wc", idx);
            let cuts: Vec<usize> = if miri { vec![e] } else { (s + 1..=e).collect() };
            for cut in cuts {
                exercise(&words_to_bytes(&w[..cut]), r, &rp, &format!("Op{} wc={} cut at word {}", d.insts[op].opname, big, cut - s), miri);
                r.evaluations += 1;
            }
            r.nontrivial(format!("oversized:{}", d.insts[op].opname));
        }
    });
    // ---- extended instructions of recognised / unrecognised imports with edge numbers, inside blocks
    run_stage(cfg, rep, "ext-inst", cfg.n(3_000, 300_000), |idx, rng, r| {
        let set_name = *rng.pick(&["GLSL.std.450", "OpenCL.std", "GLSL.std.450", "OpenCL.std", "GLSL.std.45", "NonSemantic.X", ""]);
        let table = if set_name.starts_with("GLSL") { &d.glsl } else { &d.cl };
        let num = match (idx % 4, rng.below(3)) {
            (0, _) => *rng.pick(&[0u32, 1, 2, 80, 81, 82, 83, 161, 162, 163, 203, 204, 205, 0x7fff_ffff, 0x8000_0000, u32::MAX]),
            (_, 0) => rng.u32(),
            (_, 1) => rng.below(400) as u32,
            _ => table[rng.below(table.len())].opcode,
        };
        let mut insts = vec![crate::gram::AInst::named("ExtInstImport", None, Some(1), vec![crate::gram::AOp::s(set_name)])];
        insts.push(crate::gram::AInst::named("Function", Some(2), Some(3), vec![crate::gram::AOp::w(crate::gram::K::FunctionControl, 0), crate::gram::AOp::id(4)]));
        insts.push(crate::gram::AInst::named("Label", None, Some(5), vec![]));
        let mut ops = vec![crate::gram::AOp::id(if rng.chance(1, 6) { 9 } else { 1 }), crate::gram::AOp::w(crate::gram::K::LiteralExtInstInteger, num)];
        for _ in 0..rng.below(4) {
            ops.push(crate::gram::AOp::id(rng.below(20) as u32));
        }
        insts.push(crate::gram::AInst::named("ExtInst", Some(2), Some(6), ops));
        insts.push(crate::gram::AInst::named("Return", None, None, vec![]));
        insts.push(crate::gram::AInst::named("FunctionEnd", None, None, vec![]));
        let (w, _m, _s) = crate::genmod::encode_module(0x0001_0300, 0, 20, &insts, None);
        let rp = || crate::util::replay_ref(cfg, "ext-inst", idx);
        if exercise(&words_to_bytes(&w), r, &rp, &format!("OpExtInst {} of {:?}", num, set_name), false) {
            r.nontrivial(format!("ext-inst:{}:{}", set_name, if table.iter().any(|e| e.opcode == num) { "known" } else { "unknown" }));
        }
    });
    // ---- boundary-value modules
    run_stage(cfg, rep, "scale", cfg.n(crate::scale::N_VARIANTS * 12, crate::scale::N_VARIANTS * 300), |idx, rng, r| {
        let (label, insts) = crate::scale::scale_module(rng, idx % crate::scale::N_VARIANTS);
        let (words, _m, _s) = crate::genmod::encode_module(0x0001_0600, 0, 1 << 22, &insts, None);
        let rp = || crate::util::replay_ref(cfg, "scale", idx).set("label", label.clone());
        if exercise(&words_to_bytes(&words), r, &rp, &label, false) {
            r.nontrivial(format!("scale:{}", label));
        }
    });
    // ---- mutants
    let n = if miri { 160 } else { cfg.n(150_000, 16_000_000) };
    run_stage(cfg, rep, "mutants", n, |idx, rng, r| {
        let must = if rng.chance(1, 2) { vec![rng.below(d.insts.len())] } else { vec![] };
        let small = rng.chance(2, 3) || miri;
        let b = gen_base(rng, must, small);
        let m = (idx % (mutate::N_MUTATORS as u64 + 1)) as usize;
        let rp = || crate::util::replay_ref(cfg, "mutants", idx);
        let (bytes, label) = if m == mutate::N_MUTATORS { (words_to_bytes(&b.words), "none".to_string()) } else { mutate::mutate(rng, &Base { words: &b.words, starts: &b.starts, insts: &b.insts }, m) };
        if idx < 2 {
            r.sample(Json::obj().set("label", label.clone()).set("binary", hex_bytes(&bytes[..bytes.len().min(96)])).set("binary_len", bytes.len()));
        }
        if exercise(&bytes, r, &rp, &label, miri) {
            r.nontrivial(format!("mutator:{}", m));
        }
    });
    // ---- noise
    let n = if miri { 48 } else { cfg.n(60_000, 8_000_000) };
    run_stage(cfg, rep, "noise", n, |idx, rng, r| {
        let len = if idx < 64 { idx as usize } else if rng.chance(1, 8) { rng.below(4097) } else { rng.below(200) };
        let mut b: Vec<u8> = (0..len).map(|_| rng.u32() as u8).collect();
        if rng.chance(3, 4) && b.len() >= 4 {
            b[..4].copy_from_slice(&gram::MAGIC.to_le_bytes());
        }
        // bias the words after the header towards plausible first words
        if b.len() >= 24 && rng.chance(1, 2) {
            let mut p = 20;
            while p + 4 <= b.len() {
                if rng.chance(1, 3) {
                    let op = d.insts[rng.below(d.insts.len())].opcode as u32;
                    let wc = rng.range(1, 6) as u32;
                    b[p..p + 4].copy_from_slice(&((wc << 16) | op).to_le_bytes());
                }
                p += 4 * rng.range(1, 4);
            }
        }
        let rp = || crate::util::replay_ref(cfg, "noise", idx);
        if exercise(&b, r, &rp, "noise", miri) {
            r.nontrivial(format!("noise-len-class:{}", len.min(63) / 4));
        }
    });
    // ---- all sequences of up to 3 interesting words after a header (exhaustive), +0..3 stray bytes
    if !miri {
        let k = INTERESTING.len() as u64;
        let total = 1 + k + k * k + k * k * k;
        run_stage(cfg, rep, "interesting-words", total, |idx, rng, r| {
            let mut rem = idx;
            let mut len = 0u32;
            while rem >= k.pow(len) {
                rem -= k.pow(len);
                len += 1;
            }
            let mut w = gram::header(0x0001_0000, 0, 10);
            for _ in 0..len {
                w.push(INTERESTING[(rem % k) as usize]);
                rem /= k;
            }
            let mut b = words_to_bytes(&w);
            for _ in 0..(idx % 4) {
                b.push(rng.u32() as u8);
            }
            let rp = || crate::util::replay_ref(cfg, "interesting-words", idx);
            exercise(&b, r, &rp, "interesting-words", false);
        });
    }
    // ---- decoder request scripts with extreme limits: only panics count here (values are C11's)
    let n = if miri { 60 } else { cfg.n(80_000, 8_000_000) };
    run_stage(cfg, rep, "decoder-scripts", n, |idx, rng, r| {
        let len = rng.below(if miri { 40 } else { 300 });
        let b: Vec<u8> = (0..len).map(|_| if rng.chance(1, 4) { 0 } else { rng.u32() as u8 }).collect();
        let script = crate::mon::c11::gen_script(rng, len);
        let mut scratch = Report::new("C11");
        let rp = || crate::util::replay_ref(cfg, "decoder-scripts", idx);
        crate::mon::c11::play(&b, &script, &mut scratch, &rp);
        for (sig, v) in scratch.violations {
            if sig.starts_with("C11:panic") || sig.contains("beyond-end") {
                r.violation(sig.replacen("C11:", "C04:decoder-", 1), v.detail, v.replay);
            }
        }
        r.count("decoder_requests", scratch.counters.get("requests").copied().unwrap_or(0));
    });
    rep.sample(Json::obj().set("directed_inputs", directed.len()).set("first", directed[0].0.clone()));
    // corpus for the Miri stage
    if let Some(path) = &cfg.corpus {
        let mut out = String::new();
        let mut push = |label: &str, b: &[u8]| {
            out.push_str(&label.replace('\t', " "));
            out.push('\t');
            out.push_str(&hex_bytes(b));
            out.push('\n');
        };
        for (l, b) in directed.iter().step_by(2) {
            if b.len() <= 120 {
                push(l, b);
            }
        }
        let total = if cfg.tier_thorough { 1600 } else { 320 };
        for i in 0..total {
            let mut rng = Rng::for_case(cfg.seed, "corpus", i);
            // tiny base: header, one numeric type, one instruction of a random opcode
            let b = {
                let mut gen = crate::geninst::Gen::new(1000);
                let mut insts = vec![gen.type_decl(*rng.pick(&crate::geninst::supported_num_types()))];
                for _ in 0..2 {
                    let ri = &d.insts[rng.below(d.insts.len())];
                    if let Some(x) = gen.inst(&mut rng, ri, crate::geninst::Form::Random) {
                        gen.observe(&x);
                        insts.push(x);
                    }
                }
                let (words, _m, starts) = crate::genmod::encode_module(0x0001_0600, 0, gen.next_id, &insts, None);
                crate::mon::c03::BaseMod { words, starts, insts }
            };
            let m = (i % (mutate::N_MUTATORS as u64 + 1)) as usize;
            let (bytes, label) = if m == mutate::N_MUTATORS { (words_to_bytes(&b.words), "none".to_string()) } else { mutate::mutate(&mut rng, &Base { words: &b.words, starts: &b.starts, insts: &b.insts }, m) };
            if bytes.len() <= 400 {
                push(&format!("m{} {}", m, label), &bytes);
            }
        }
        // a spread of input sizes (memory errors that depend on the length of the buffer): modules of exactly
        // W words around every power of two, made of one-word instructions or of one long string
        let mut sizes: Vec<usize> = vec![];
        for k in 5..=(if cfg.tier_thorough { 12 } else { 10 }) {
            let p2 = 1usize << k;
            sizes.extend([p2 - 1, p2, p2 + 1, p2 + p2 / 2]);
        }
        for (j, wds) in sizes.iter().enumerate() {
            let mut w = gram::header(0x0001_0600, 0, 100);
            w.extend([(3 << 16) | 14, 0, 1]);
            if j % 2 == 0 {
                while w.len() < *wds {
                    w.push(1 << 16);
                }
            } else {
                // OpString %7 "aaaa…" filling the rest
                let rest = wds - w.len();
                if rest >= 3 {
                    w.push(((rest as u32) << 16) | 7);
                    w.push(7);
                    for q in 0..rest - 2 {
                        w.push(if q + 3 == rest { 0x0061_6161 } else { 0x6161_6161 });
                    }
                }
            }
            push(&format!("size {} words", w.len()), &words_to_bytes(&w));
        }
        for i in 0..40u64 {
            let mut rng = Rng::for_case(cfg.seed, "corpus-noise", i);
            let len = rng.below(120);
            let mut b: Vec<u8> = (0..len).map(|_| rng.u32() as u8).collect();
            if b.len() >= 4 {
                b[..4].copy_from_slice(&gram::MAGIC.to_le_bytes());
            }
            push("noise", &b);
        }
        if let Err(e) = std::fs::write(path, out) {
            rep.inconclusive.push(format!("cannot write corpus {}: {}", path, e));
        }
    }
}
