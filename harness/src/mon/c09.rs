//! C09 – grammar tables are total, unique, well-formed and match the (frozen) Khronos grammar.

use crate::generated::decls;
use crate::gram::{self, db, kind_name, quant_name, RefExt, K, Q};
use crate::util::{catch, run_stage, Cfg, Json, Report};
use rspirv::grammar as g;
use std::collections::BTreeMap;

fn ops_str(o: &[g::LogicalOperand]) -> String {
    o.iter().map(|l| format!("{}:{}", kind_name(l.kind), quant_name(l.quantifier))).collect::<Vec<_>>().join(",")
}
fn ref_ops_str(o: &[(K, Q)]) -> String {
    o.iter().map(|(k, q)| format!("{}:{}", kind_name(*k), quant_name(*q))).collect::<Vec<_>>().join(",")
}

/// Literal well-formedness rule of the property.
pub fn well_formed(ops: &[(K, Q)]) -> Result<(), String> {
    let n_rt = ops.iter().filter(|(k, _)| *k == K::IdResultType).count();
    let n_rid = ops.iter().filter(|(k, _)| *k == K::IdResult).count();
    if n_rt > 1 || n_rid > 1 {
        return Err("more than one result type / result id".into());
    }
    if n_rt == 1 && ops[0].0 != K::IdResultType {
        return Err("result type is not the first operand".into());
    }
    if n_rid == 1 {
        let pos = ops.iter().position(|(k, _)| *k == K::IdResult).unwrap();
        if pos != n_rt {
            return Err("result id does not immediately follow the result type / is not first".into());
        }
    }
    if n_rt == 1 && n_rid == 0 {
        return Err("result type without result id".into());
    }
    for (k, q) in ops {
        if matches!(k, K::IdResultType | K::IdResult) && *q != Q::One {
            return Err("result operand with a quantifier".into());
        }
    }
    let mut seen_opt = false;
    for (i, (_, q)) in ops.iter().enumerate() {
        match q {
            Q::One => {
                if seen_opt {
                    return Err(format!("required operand #{} after an optional/variadic one", i));
                }
            }
            Q::ZeroOrOne => seen_opt = true,
            Q::ZeroOrMore => {
                seen_opt = true;
                if i + 1 != ops.len() {
                    return Err(format!("variadic operand #{} is not last", i));
                }
            }
        }
    }
    Ok(())
}

fn caps_str(c: &[rspirv::spirv::Capability]) -> Vec<String> {
    c.iter().map(|c| format!("{:?}", c)).collect()
}

pub fn run(cfg: &Cfg, rep: &mut Report) {
    rep.rule = "exhaustive: all 65536 opcode numbers through lookup_opcode, every declared Op through get, every table entry (core, GLSL.std.450, OpenCL.std) for uniqueness, well-formedness and equality with the frozen reference / spec anchors; ext-inst numbers 0..2^20 + edges + random; lookups in varying order (6.4 M random (declared, any) pairs in both orders; thorough: all 787 x 65536 pairs) must give the answers of the ordered sweep. distinct_nontrivial = distinct table entries whose content was compared".into();
    rep.assumptions.push("the frozen reference (dumped from the pinned tree) equals the Khronos grammar of SDK 1.4.309.0".into());
    rep.exhaustive = true;
    let d = db();
    let op_enum = decls::ENUMS.iter().find(|e| e.name == "Op").expect("Op enum");
    let glop = decls::ENUMS.iter().find(|e| e.name == "GLOp").expect("GLOp enum");
    let clop = decls::ENUMS.iter().find(|e| e.name == "CLOp").expect("CLOp enum");

    // ---- totality of lookup over all 16-bit numbers (16 chunks)
    run_stage(cfg, rep, "lookup-16bit", 16, |idx, _rng, r| {
        for n in (idx * 4096)..((idx + 1) * 4096) {
            let n = n as u16;
            let declared = op_enum.variants.iter().find(|(_, v)| *v == n as u32);
            let got = catch(|| g::CoreInstructionTable::lookup_opcode(n));
            let rp = || crate::util::replay_ref(cfg, "lookup-16bit", idx).set("n", n);
            match got {
                Err(p) => r.violation(format!("C09:lookup-panic:{}", n), format!("lookup_opcode({}) panicked: {}", n, p.msg), rp()),
                Ok(e) => match (declared, e) {
                    (None, None) => {}
                    (Some((name, _)), Some(e)) => {
                        if e.opcode as u32 != n as u32 {
                            r.violation(format!("C09:lookup-wrong-opcode:{}", name), format!("lookup_opcode({}) returned the entry of {:?}", n, e.opcode), rp());
                        }
                        if e.opname != *name || format!("{:?}", e.opcode) != *name {
                            r.violation(format!("C09:lookup-wrong-name:{}", name), format!("lookup_opcode({}) returned opname {:?} / opcode {:?}, declared name {}", n, e.opname, e.opcode, name), rp());
                        }
                        r.nontrivial(format!("lookup:{}", name));
                    }
                    (Some((name, _)), None) => r.violation(format!("C09:lookup-missing:{}", name), format!("lookup_opcode({}) = None but Op::{} is declared", n, name), rp()),
                    (None, Some(e)) => r.violation(format!("C09:lookup-undeclared:{}", n), format!("lookup_opcode({}) = Some({}) but no Op has that number", n, e.opname), rp()),
                },
            }
        }
        r.count("numbers_checked", 4096);
        r.evaluations += 4096;
    });

    // ---- get() for every declared opcode, uniqueness, well-formedness, content
    run_stage(cfg, rep, "core-entries", 1, |idx, _rng, r| {
        let rp = || crate::util::replay_ref(cfg, "core-entries", idx);
        let mut per_op: BTreeMap<u32, usize> = BTreeMap::new();
        let mut per_name: BTreeMap<String, usize> = BTreeMap::new();
        let mut n_entries = 0;
        for e in g::CoreInstructionTable::iter() {
            n_entries += 1;
            *per_op.entry(e.opcode as u32).or_insert(0) += 1;
            *per_name.entry(e.opname.to_string()).or_insert(0) += 1;
            let ops: Vec<(K, Q)> = e.operands.iter().map(|l| (l.kind, l.quantifier)).collect();
            if let Err(why) = well_formed(&ops) {
                r.violation(format!("C09:ill-formed:{}", e.opname), format!("Op{} [{}]: {}", e.opname, ops_str(e.operands), why), rp());
            }
            match d.by_name.get(e.opname).map(|i| &d.insts[*i]) {
                None => r.violation(format!("C09:reference-extra-entry:{}", e.opname), format!("table has Op{} ({}) which the frozen reference lacks", e.opname, e.opcode as u32), rp()),
                Some(ri) => {
                    if ri.opcode as u32 != e.opcode as u32 {
                        r.violation(format!("C09:reference-opcode:{}", e.opname), format!("Op{}: opcode {} vs reference {}", e.opname, e.opcode as u32, ri.opcode), rp());
                    }
                    if ri.ops != ops {
                        r.violation(format!("C09:reference-operands:{}", e.opname), format!("Op{}: operands [{}] vs reference [{}]", e.opname, ops_str(e.operands), ref_ops_str(&ri.ops)), rp());
                    }
                    if ri.caps != caps_str(e.capabilities) {
                        r.violation(format!("C09:reference-capabilities:{}", e.opname), format!("Op{}: capabilities {:?} vs reference {:?}", e.opname, caps_str(e.capabilities), ri.caps), rp());
                    }
                    let exts: Vec<String> = e.extensions.iter().map(|s| s.to_string()).collect();
                    if ri.exts != exts {
                        r.violation(format!("C09:reference-extensions:{}", e.opname), format!("Op{}: extensions {:?} vs reference {:?}", e.opname, exts, ri.exts), rp());
                    }
                    r.nontrivial(format!("core:{}", e.opname));
                }
            }
        }
        for (op, c) in &per_op {
            if *c != 1 {
                r.violation(format!("C09:duplicate-opcode:{}", op), format!("{} table entries carry opcode {}", c, op), rp());
            }
        }
        for (n, c) in &per_name {
            if *c != 1 {
                r.violation(format!("C09:duplicate-opname:{}", n), format!("{} table entries carry opname {}", c, n), rp());
            }
        }
        for ri in &d.insts {
            if !per_name.contains_key(&ri.opname) {
                r.violation(format!("C09:reference-missing-entry:{}", ri.opname), format!("frozen reference has Op{} ({}) which the table lacks", ri.opname, ri.opcode), rp());
            }
        }
        if n_entries != op_enum.variants.len() {
            r.violation("C09:entry-count".to_string(), format!("{} table entries for {} declared opcodes", n_entries, op_enum.variants.len()), rp());
        }
        r.count("core_entries", n_entries as u64);
        r.evaluations += n_entries as u64;
        for (name, v) in op_enum.variants {
            let op = match decls::op_by_value(*v) {
                Some(o) => o,
                None => continue,
            };
            match catch(|| g::CoreInstructionTable::get(op)) {
                Err(p) => r.violation(format!("C09:get-panic:{}", name), format!("CoreInstructionTable::get(Op::{}) panicked: {}", name, p.msg), rp()),
                Ok(e) => {
                    if e.opcode != op || e.opname != *name {
                        r.violation(format!("C09:get-wrong:{}", name), format!("get(Op::{}) returned entry {} / {:?}", name, e.opname, e.opcode), rp());
                    }
                }
            }
            r.count("get_calls", 1);
        }
        // anchors
        if let Ok(a) = gram::parse_frozen(crate::mon::c08::ANCHORS) {
            for ai in &a.insts {
                match g::CoreInstructionTable::lookup_opcode(ai.opcode) {
                    None => r.violation(format!("C09:anchor-missing:{}", ai.opname), format!("specification has Op{} = {}, table has no entry", ai.opname, ai.opcode), rp()),
                    Some(e) => {
                        let ops: Vec<(K, Q)> = e.operands.iter().map(|l| (l.kind, l.quantifier)).collect();
                        if e.opname != ai.opname || ops != ai.ops {
                            r.violation(format!("C09:anchor-operands:{}", ai.opname), format!("specification: Op{} [{}]; table: Op{} [{}]", ai.opname, ref_ops_str(&ai.ops), e.opname, ops_str(e.operands)), rp());
                        }
                    }
                }
                r.count("anchors_checked", 1);
            }
        } else {
            r.inconclusive.push("spec anchors unreadable".into());
        }
    });

    // ---- lookups are pure: the answer for n must not depend on what was looked up before (memo tables,
    //      "last hit" shortcuts). Ordered sweeps overwrite such state long before a collision partner comes;
    //      so: (declared X, any Y) in both orders - a random sample (quick), all 787 x 65536 pairs (thorough) -
    //      interleaved with get(), plus random walks
    {
        let mut truth: Vec<Option<&'static str>> = vec![None; 65536];
        for (name, v) in op_enum.variants {
            if (*v as usize) < truth.len() {
                truth[*v as usize] = Some(name);
            }
        }
        let truth = &truth;
        let declared_nums: Vec<u16> = op_enum.variants.iter().map(|(_, v)| *v as u16).collect();
        let dn = &declared_nums;
        let check_one = |n: u16, after: u16, r: &mut Report, rp: &dyn Fn() -> Json| -> bool {
            let got = g::CoreInstructionTable::lookup_opcode(n);
            let ok = match (truth[n as usize], got) {
                (None, None) => true,
                (Some(name), Some(e)) => e.opcode as u32 == n as u32 && e.opname == name,
                _ => false,
            };
            if !ok {
                r.violation("C09:lookup-depends-on-history".to_string(), format!("lookup_opcode({}) right after lookup_opcode({}) returned {:?}; declared: {:?}", n, after, got.map(|e| e.opname), truth[n as usize]), rp());
            }
            ok
        };
        let exhaustive_pairs = cfg.tier_thorough;
        let cases: u64 = if exhaustive_pairs { declared_nums.len() as u64 } else { 64 };
        run_stage(cfg, rep, "lookup-pairs", cases, |idx, rng, r| {
            let rp = || crate::util::replay_ref(cfg, "lookup-pairs", idx);
            let r0 = std::panic::catch_unwind(std::panic::AssertUnwindSafe(|| {
                let mut local = Report::new("C09");
                let mut n_pairs = 0u64;
                if exhaustive_pairs {
                    let x = dn[idx as usize];
                    for y in 0..=u16::MAX {
                        let _ = g::CoreInstructionTable::lookup_opcode(x);
                        if !check_one(y, x, &mut local, &rp) {
                            break;
                        }
                        if !check_one(x, y, &mut local, &rp) {
                            break;
                        }
                        n_pairs += 2;
                    }
                } else {
                    for _ in 0..100_000 {
                        let x = dn[rng.below(dn.len())];
                        let y = rng.u32() as u16;
                        let _ = g::CoreInstructionTable::lookup_opcode(x);
                        if !check_one(y, x, &mut local, &rp) || !check_one(x, y, &mut local, &rp) {
                            break;
                        }
                        // get() after an arbitrary lookup
                        if let Some(op) = decls::op_by_value(x as u32) {
                            let e = g::CoreInstructionTable::get(op);
                            if e.opcode as u32 != x as u32 {
                                local.violation("C09:lookup-depends-on-history".to_string(), format!("get({:?}) right after lookup_opcode({}) returned the entry of {:?}", op, y, e.opcode), rp());
                                break;
                            }
                        }
                        n_pairs += 2;
                    }
                }
                (local, n_pairs)
            }));
            match r0 {
                Ok((local, n_pairs)) => {
                    r.merge(local);
                    r.count("lookup_pairs_checked", n_pairs);
                    r.evaluations += n_pairs;
                }
                Err(_) => r.violation("C09:lookup-panic-after-history".to_string(), "a table lookup panicked in a sequence of lookups (each of them succeeds on its own)".to_string(), rp()),
            }
        });
    }

    // ---- extended instruction tables
    type ExtLookup = fn(u32) -> Option<&'static g::ExtendedInstruction<'static>>;
    let sets: [(&str, &decls::EnumDecl, ExtLookup, &Vec<RefExt>); 2] = [("glsl", glop, g::GlslStd450InstructionTable::lookup_opcode as ExtLookup, &d.glsl), ("opencl", clop, g::OpenCLStd100InstructionTable::lookup_opcode as ExtLookup, &d.cl)];
    for (tag, decl, lookup, reference) in sets {
        let stage = format!("ext-{}", tag);
        let chunks = 64u64;
        run_stage(cfg, rep, &stage, chunks, |idx, rng, r| {
            let rp = |n: u32| crate::util::replay_ref(cfg, &stage, idx).set("n", n);
            let span = (1u64 << 20) / chunks;
            let mut cands: Vec<u32> = ((idx * span)..((idx + 1) * span)).map(|x| x as u32).collect();
            for _ in 0..20_000 {
                cands.push(rng.word());
            }
            if idx == 0 {
                for (_, v) in decl.variants {
                    for dlt in [-1i64, 0, 1] {
                        cands.push((*v as i64 + dlt).max(0) as u32);
                    }
                    cands.push(v | 0x1_0000);
                    cands.push(v | 0x8000_0000);
                }
            }
            for n in cands.iter().copied() {
                let declared = decl.variants.iter().find(|(_, v)| *v == n);
                let looked = match catch(|| lookup(n)) {
                    Ok(x) => x,
                    Err(p) => {
                        r.violation(format!("C09:{}-lookup-panic", tag), format!("lookup_opcode({}) panicked: {}", n, p.msg), rp(n));
                        continue;
                    }
                };
                match (declared, looked) {
                    (None, None) => {}
                    (Some((name, _)), Some(e)) => {
                        if e.opcode != n {
                            r.violation(format!("C09:{}-lookup-wrong:{}", tag, name), format!("lookup_opcode({}) returned entry {} ({})", n, e.opname, e.opcode), rp(n));
                        }
                        r.nontrivial(format!("{}:{}", tag, name));
                    }
                    (Some((name, _)), None) => r.violation(format!("C09:{}-lookup-missing:{}", tag, name), format!("lookup_opcode({}) = None but {} is declared", n, name), rp(n)),
                    (None, Some(e)) => r.violation(format!("C09:{}-lookup-undeclared:{}", tag, n), format!("lookup_opcode({}) = {} but no opcode enumerant has that number", n, e.opname), rp(n)),
                }
            }
            r.count("ext_numbers_checked", cands.len() as u64);
            r.evaluations += cands.len() as u64;
        });
        let stage2 = format!("ext-{}-entries", tag);
        run_stage(cfg, rep, &stage2, 1, |idx, _rng, r| {
            let rp = || crate::util::replay_ref(cfg, &stage2, idx);
            let live: Vec<&'static g::ExtendedInstruction<'static>> = if tag == "glsl" { g::GlslStd450InstructionTable::iter().collect() } else { g::OpenCLStd100InstructionTable::iter().collect() };
            let mut per: BTreeMap<u32, usize> = BTreeMap::new();
            for e in &live {
                *per.entry(e.opcode).or_insert(0) += 1;
                let ops: Vec<(K, Q)> = e.operands.iter().map(|l| (l.kind, l.quantifier)).collect();
                if let Err(why) = well_formed(&ops) {
                    r.violation(format!("C09:{}-ill-formed:{}", tag, e.opname), format!("{} [{}]: {}", e.opname, ops_str(e.operands), why), rp());
                }
                match reference.iter().find(|x| x.opname == e.opname) {
                    None => r.violation(format!("C09:{}-reference-extra:{}", tag, e.opname), format!("{} table has {} which the frozen reference lacks", tag, e.opname), rp()),
                    Some(x) => {
                        let exts: Vec<String> = e.extensions.iter().map(|s| s.to_string()).collect();
                        if x.opcode != e.opcode || x.ops != ops || x.caps != caps_str(e.capabilities) || x.exts != exts {
                            r.violation(format!("C09:{}-reference-content:{}", tag, e.opname), format!("{} entry {} ({}) [{}] differs from reference ({}) [{}]", tag, e.opname, e.opcode, ops_str(e.operands), x.opcode, ref_ops_str(&x.ops)), rp());
                        }
                        r.nontrivial(format!("{}-entry:{}", tag, e.opname));
                    }
                }
                if !decl.variants.iter().any(|(_, v)| *v == e.opcode) {
                    r.violation(format!("C09:{}-entry-undeclared:{}", tag, e.opname), format!("{} table entry {} has number {} which the opcode enumeration lacks", tag, e.opname, e.opcode), rp());
                }
            }
            for (n, c) in &per {
                if *c != 1 {
                    r.violation(format!("C09:{}-duplicate:{}", tag, n), format!("{} entries carry number {}", c, n), rp());
                }
            }
            for x in reference.iter() {
                if !live.iter().any(|e| e.opname == x.opname) {
                    r.violation(format!("C09:{}-reference-missing:{}", tag, x.opname), format!("frozen reference has {} which the {} table lacks", x.opname, tag), rp());
                }
            }
            if live.len() != decl.variants.len() {
                r.violation(format!("C09:{}-entry-count", tag), format!("{} entries for {} declared numbers", live.len(), decl.variants.len()), rp());
            }
            // get() by enum value
            for (name, v) in decl.variants {
                let res = if tag == "glsl" {
                    match decls::GLOp_by_value(*v) {
                        Some(o) => catch(|| g::GlslStd450InstructionTable::get(o).opcode),
                        None => continue,
                    }
                } else {
                    match decls::CLOp_by_value(*v) {
                        Some(o) => catch(|| g::OpenCLStd100InstructionTable::get(o).opcode),
                        None => continue,
                    }
                };
                match res {
                    Err(p) => r.violation(format!("C09:{}-get-panic:{}", tag, name), format!("get({}) panicked: {}", name, p.msg), rp()),
                    Ok(n) if n != *v => r.violation(format!("C09:{}-get-wrong:{}", tag, name), format!("get({}) returned entry number {}", name, n), rp()),
                    _ => {}
                }
            }
            r.count("ext_entries", live.len() as u64);
        });
    }
    rep.sample(Json::obj().set("lookup", "lookup_opcode(n) for every n in 0..65536 compared with the declared Op discriminants"));
    if let Some(e) = g::CoreInstructionTable::iter().nth(61) {
        rep.sample(Json::obj().set("entry", e.opname).set("opcode", e.opcode as u32).set("operands", ops_str(e.operands)));
    }
}
