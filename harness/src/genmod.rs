//! Module generator: skeleton (opcode sequence in stream order) first, then instruction contents
//! generated along the stream so that context-dependent literal widths follow the actual order.

use crate::geninst::{Form, Gen};
use crate::gram::{db, AInst, RefInst};
use crate::model::NumTy;
use crate::spec::{self, Section, Sym};
use crate::util::Rng;
use std::sync::OnceLock;

pub struct Pools {
    /// per section: db indices of opcodes the spec files there by opcode alone
    pub global: [Vec<usize>; 11],
    /// opcodes that may appear inside a block (everything that is not structural / global)
    pub block: Vec<usize>,
    pub terminators: Vec<usize>,
    pub all: usize,
}

pub fn pools() -> &'static Pools {
    static P: OnceLock<Pools> = OnceLock::new();
    P.get_or_init(|| {
        let d = db();
        let mut p = Pools { global: Default::default(), block: vec![], terminators: vec![], all: d.insts.len() };
        for (i, ri) in d.insts.iter().enumerate() {
            match spec::classify(&ri.opname) {
                Sym::Global(s) => p.global[s as usize].push(i),
                Sym::Terminator => p.terminators.push(i),
                Sym::BlockInst | Sym::Unspecified | Sym::VarUndef | Sym::Line => p.block.push(i),
                Sym::Function | Sym::FunctionEnd | Sym::Parameter | Sym::Label => {}
            }
        }
        p
    })
}

#[derive(Clone, Debug)]
pub enum Item {
    Op(usize),
    NumType(NumTy),
}

#[derive(Clone, Debug, Default)]
pub struct Skeleton {
    pub items: Vec<Item>,
}

#[derive(Clone, Debug)]
pub struct ModOpts {
    pub max_functions: usize,
    pub max_blocks: usize,
    pub max_block_insts: usize,
    pub max_per_section: usize,
    /// keep logical-layout order (otherwise sections are interleaved and globals may sit in functions)
    pub layout_order: bool,
    /// db indices that must appear (placed according to their class)
    pub must: Vec<usize>,
    pub memory_model: bool,
}

impl Default for ModOpts {
    fn default() -> ModOpts {
        ModOpts { max_functions: 3, max_blocks: 3, max_block_insts: 4, max_per_section: 3, layout_order: true, must: vec![], memory_model: true }
    }
}

fn name_idx(n: &str) -> usize {
    *db().by_name.get(n).unwrap_or_else(|| panic!("reference has no Op{}", n))
}

/// Builds the opcode skeleton of a loadable module.
pub fn skeleton(rng: &mut Rng, o: &ModOpts) -> Skeleton {
    let p = pools();
    let d = db();
    // 1. per-section sequences
    let mut secs: Vec<Vec<Item>> = vec![vec![]; 11];
    let mut block_must: Vec<usize> = vec![];
    let mut term_must: Vec<usize> = vec![];
    for &m in &o.must {
        match spec::classify(&d.insts[m].opname) {
            Sym::Global(Section::MemoryModel) => {}
            Sym::Global(s) => secs[s as usize].push(Item::Op(m)),
            Sym::Terminator => term_must.push(m),
            Sym::BlockInst | Sym::Unspecified | Sym::VarUndef | Sym::Line => block_must.push(m),
            _ => {}
        }
    }
    for s in 0..11 {
        if s == Section::MemoryModel as usize {
            if o.memory_model {
                secs[s].push(Item::Op(name_idx("MemoryModel")));
            }
            continue;
        }
        let n = rng.below(o.max_per_section + 1);
        for _ in 0..n {
            if !p.global[s].is_empty() {
                secs[s].push(Item::Op(*rng.pick(&p.global[s])));
            }
        }
    }
    // numeric type declarations at the front of types_global_values, plus global variables/undefs/lines
    {
        let tg = &mut secs[Section::TypesGlobalValues as usize];
        let all = crate::geninst::supported_num_types();
        let mut front = vec![];
        for _ in 0..rng.range(1, 4) {
            let t = if rng.chance(1, 10) { NumTy::Int(*rng.pick(&[1u32, 7, 24, 48, 128]), rng.chance(1, 2)) } else { *rng.pick(&all) };
            front.push(Item::NumType(t));
        }
        front.append(tg);
        *tg = front;
        for _ in 0..rng.below(3) {
            tg.push(Item::Op(name_idx(*rng.pick(&["Variable", "Undef", "Line", "NoLine", "Constant", "SpecConstant", "Constant"]))));
        }
        rng_shuffle_tail(rng, tg);
    }
    // 2. functions
    let nf = if block_must.is_empty() && term_must.is_empty() { rng.below(o.max_functions + 1) } else { rng.range(1, o.max_functions.max(1)) };
    let mut funcs: Vec<Vec<Item>> = vec![];
    let mut bm = block_must.into_iter();
    let mut tm = term_must.into_iter();
    for fi in 0..nf {
        let mut f = vec![Item::Op(name_idx("Function"))];
        for _ in 0..rng.below(3) {
            f.push(Item::Op(name_idx("FunctionParameter")));
        }
        let last_f = fi + 1 == nf;
        let mut nb = rng.below(o.max_blocks + 1);
        if last_f && (bm.len() > 0 || tm.len() > 0) {
            nb = nb.max(1);
        }
        let mut bi = 0;
        loop {
            let more_must = last_f && (bm.len() > 0 || tm.len() > 0);
            if bi >= nb && !more_must {
                break;
            }
            f.push(Item::Op(name_idx("Label")));
            let n = rng.below(o.max_block_insts + 1);
            for _ in 0..n {
                match bm.next() {
                    Some(m) => f.push(Item::Op(m)),
                    None => f.push(Item::Op(*rng.pick(&p.block))),
                }
            }
            if last_f && bi + 1 >= nb {
                // flush remaining must-have block instructions into this block
                if tm.len() <= 1 {
                    for m in bm.by_ref() {
                        f.push(Item::Op(m));
                    }
                }
            }
            match tm.next() {
                Some(m) => f.push(Item::Op(m)),
                None => f.push(Item::Op(*rng.pick(&p.terminators))),
            }
            bi += 1;
        }
        f.push(Item::Op(name_idx("FunctionEnd")));
        funcs.push(f);
    }
    // 3. stream order
    let mut sk = Skeleton::default();
    if o.layout_order {
        for s in secs {
            sk.items.extend(s);
        }
        for f in funcs {
            sk.items.extend(f);
        }
        return sk;
    }
    // permuted: interleave the section sequences (internal order preserved); functions are placed as
    // units at random points; opcode-classified globals may additionally be dropped into function
    // bodies (the loader files them by opcode wherever they occur).
    let mut cursors = vec![0usize; 11];
    let mut units: Vec<Vec<Item>> = vec![];
    loop {
        let live: Vec<usize> = (0..11).filter(|s| cursors[*s] < secs[*s].len()).collect();
        if live.is_empty() {
            break;
        }
        let s = *rng.pick(&live);
        units.push(vec![secs[s][cursors[s]].clone()]);
        cursors[s] += 1;
    }
    for f in funcs {
        let pos = rng.below(units.len() + 1);
        units.insert(pos, f);
    }
    // move some context-free globals into function bodies
    let mut flat: Vec<(Item, bool)> = vec![]; // (item, inside function)
    let mut pending_inside: Vec<Item> = vec![];
    let is_free_global = |it: &Item| match it {
        Item::NumType(_) => false,
        Item::Op(i) => matches!(spec::classify(&d.insts[*i].opname), Sym::Global(s) if s != Section::TypesGlobalValues),
    };
    for u in units {
        if u.len() == 1 {
            if is_free_global(&u[0]) && rng.chance(1, 6) {
                pending_inside.push(u[0].clone());
            } else {
                flat.push((u[0].clone(), false));
            }
        } else {
            for (j, it) in u.iter().enumerate() {
                flat.push((it.clone(), true));
                if j + 1 < u.len() && !pending_inside.is_empty() && rng.chance(1, 2) {
                    flat.push((pending_inside.remove(0), true));
                }
            }
        }
    }
    for it in pending_inside {
        flat.push((it, false));
    }
    sk.items = flat.into_iter().map(|(i, _)| i).collect();
    sk
}

fn rng_shuffle_tail(_rng: &mut Rng, _v: &mut Vec<Item>) {}

/// Instantiates a skeleton into abstract instructions, in stream order.
pub fn instantiate(rng: &mut Rng, gen: &mut Gen, sk: &Skeleton, form: Form) -> Vec<AInst> {
    let d = db();
    let mut out = Vec::with_capacity(sk.items.len());
    for it in &sk.items {
        match it {
            Item::NumType(t) => out.push(gen.type_decl(*t)),
            Item::Op(i) => {
                let ri: &RefInst = &d.insts[*i];
                let mut tries = 0;
                loop {
                    let f = if tries == 0 { form } else { Form::Min };
                    if let Some(inst) = gen.inst(rng, ri, f) {
                        gen.observe(&inst);
                        out.push(inst);
                        break;
                    }
                    tries += 1;
                    if tries > 8 {
                        break;
                    }
                }
            }
        }
    }
    out
}

/// Full binary (words) of a module: header + reference encodings. `junk` fills post-NUL padding.
pub fn encode_module(version: u32, generator: u32, bound: u32, insts: &[AInst], mut junk: Option<&mut Rng>) -> (Vec<u32>, Vec<u32>, Vec<usize>) {
    let mut w = crate::gram::header(version, generator, bound);
    let mut m = vec![!0u32; 5];
    let mut starts = vec![];
    for i in insts {
        starts.push(w.len());
        let (iw, im) = i.enc_masked(junk.as_deref_mut());
        w.extend(iw);
        m.extend(im);
    }
    (w, m, starts)
}

pub fn random_version(rng: &mut Rng) -> u32 {
    match rng.below(6) {
        0 => 0x0001_0000,
        1 => 0x0001_0600,
        2 => crate::gram::version_word(rng.below(256) as u8, rng.below(256) as u8),
        // versions the pinned grammar does not know yet: later minor and major versions
        3 => crate::gram::version_word(1, *rng.pick(&[7u8, 8, 9, 10, 15, 16, 127, 128, 255])),
        4 => crate::gram::version_word(*rng.pick(&[0u8, 2, 3, 255]), rng.below(8) as u8),
        _ => crate::gram::version_word(1, rng.below(7) as u8),
    }
}
