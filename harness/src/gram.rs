//! Frozen reference grammar database (oracle data), abstract instructions, reference encoder.
//!
//! The database is loaded from `/verif/reference/frozen.txt`, which was dumped ONCE from the pinned
//! tree (`vmon dump-reference`) and is committed; checks never regenerate it. It stands for "the
//! Khronos grammar of the pinned SDK release" (the JSON itself is not available offline).

use crate::generated::decls;
use crate::util::Rng;
use rspirv::dr;
pub use rspirv::grammar::{OperandKind as K, OperandQuantifier as Q};
use std::collections::{BTreeMap, HashMap};
use std::sync::OnceLock;

pub const FROZEN: &str = include_str!("../../reference/frozen.txt");

#[derive(Clone, Debug, PartialEq)]
pub struct RefInst {
    pub opname: String,
    pub opcode: u16,
    pub caps: Vec<String>,
    pub exts: Vec<String>,
    pub ops: Vec<(K, Q)>,
}

#[derive(Clone, Debug, PartialEq)]
pub struct RefExt {
    pub opname: String,
    pub opcode: u32,
    pub caps: Vec<String>,
    pub exts: Vec<String>,
    pub ops: Vec<(K, Q)>,
}

#[derive(Default)]
pub struct RefDb {
    pub insts: Vec<RefInst>,
    pub by_opcode: HashMap<u16, usize>,
    pub by_name: HashMap<String, usize>,
    /// kind name -> [(variant name, value)]
    pub enums: BTreeMap<String, Vec<(String, u32)>>,
    /// kind name -> [(alias, target variant)]
    pub aliases: BTreeMap<String, Vec<(String, String)>>,
    /// kind name -> [(CONST_NAME, bits)]
    pub masks: BTreeMap<String, Vec<(String, u32)>>,
    /// (kind, enumerant value | single mask bit) -> parameter kinds in order
    pub params: HashMap<(K, u32), Vec<(K, Q)>>,
    /// (kind, enumerant value | single mask bit) -> (capabilities, extensions)
    pub caps: HashMap<(K, u32), (Vec<String>, Vec<String>)>,
    pub glsl: Vec<RefExt>,
    pub cl: Vec<RefExt>,
}

pub fn kind_by_name(n: &str) -> Option<K> {
    decls::OPERAND_KINDS.iter().find(|(s, _)| *s == n).map(|(_, k)| *k)
}
pub fn kind_name(k: K) -> &'static str {
    decls::OPERAND_KINDS.iter().find(|(_, kk)| *kk == k).map(|(s, _)| *s).unwrap_or("?")
}
pub fn quant_by_name(n: &str) -> Option<Q> {
    match n {
        "One" => Some(Q::One),
        "ZeroOrOne" => Some(Q::ZeroOrOne),
        "ZeroOrMore" => Some(Q::ZeroOrMore),
        _ => None,
    }
}
pub fn quant_name(q: Q) -> &'static str {
    match q {
        Q::One => "One",
        Q::ZeroOrOne => "ZeroOrOne",
        Q::ZeroOrMore => "ZeroOrMore",
    }
}

fn split_list(s: &str) -> Vec<String> {
    if s.is_empty() {
        vec![]
    } else {
        s.split(',').map(|x| x.to_string()).collect()
    }
}
fn parse_ops(s: &str) -> Result<Vec<(K, Q)>, String> {
    let mut v = vec![];
    for it in split_list(s) {
        let (k, q) = it.split_once(':').ok_or_else(|| format!("bad operand {}", it))?;
        v.push((kind_by_name(k).ok_or_else(|| format!("unknown kind {}", k))?, quant_by_name(q).ok_or_else(|| format!("unknown quantifier {}", q))?));
    }
    Ok(v)
}
fn field<'a>(toks: &[&'a str], key: &str) -> &'a str {
    for t in toks {
        if let Some(v) = t.strip_prefix(key) {
            if let Some(v) = v.strip_prefix('=') {
                return v;
            }
        }
    }
    ""
}

pub fn parse_frozen(text: &str) -> Result<RefDb, String> {
    let mut db = RefDb::default();
    for (ln, line) in text.lines().enumerate() {
        let line = line.trim();
        if line.is_empty() || line.starts_with('#') {
            continue;
        }
        let toks: Vec<&str> = line.split(' ').collect();
        let err = |m: &str| format!("frozen.txt line {}: {}", ln + 1, m);
        match toks[0] {
            "inst" => {
                let ri = RefInst {
                    opname: toks[1].to_string(),
                    opcode: toks[2].parse().map_err(|_| err("opcode"))?,
                    caps: split_list(field(&toks, "caps")),
                    exts: split_list(field(&toks, "exts")),
                    ops: parse_ops(field(&toks, "ops")).map_err(|e| err(&e))?,
                };
                db.by_opcode.insert(ri.opcode, db.insts.len());
                db.by_name.insert(ri.opname.clone(), db.insts.len());
                db.insts.push(ri);
            }
            "glsl" | "cl" => {
                let re = RefExt {
                    opname: toks[1].to_string(),
                    opcode: toks[2].parse().map_err(|_| err("opcode"))?,
                    caps: split_list(field(&toks, "caps")),
                    exts: split_list(field(&toks, "exts")),
                    ops: parse_ops(field(&toks, "ops")).map_err(|e| err(&e))?,
                };
                if toks[0] == "glsl" {
                    db.glsl.push(re)
                } else {
                    db.cl.push(re)
                }
            }
            "enum" => db.enums.entry(toks[1].to_string()).or_default().push((toks[2].to_string(), toks[3].parse().map_err(|_| err("value"))?)),
            "alias" => db.aliases.entry(toks[1].to_string()).or_default().push((toks[2].to_string(), toks[3].to_string())),
            "mask" => db.masks.entry(toks[1].to_string()).or_default().push((toks[2].to_string(), toks[3].parse().map_err(|_| err("bits"))?)),
            "param" => {
                let k = kind_by_name(toks[1]).ok_or_else(|| err("kind"))?;
                let v: u32 = toks[2].parse().map_err(|_| err("value"))?;
                db.params.insert((k, v), parse_ops(field(&toks, "kinds")).map_err(|e| err(&e))?);
            }
            "cap" => {
                let k = kind_by_name(toks[1]).ok_or_else(|| err("kind"))?;
                let v: u32 = toks[2].parse().map_err(|_| err("value"))?;
                db.caps.insert((k, v), (split_list(field(&toks, "caps")), split_list(field(&toks, "exts"))));
            }
            other => return Err(err(&format!("unknown record {}", other))),
        }
    }
    Ok(db)
}

static DB: OnceLock<RefDb> = OnceLock::new();
pub fn db() -> &'static RefDb {
    DB.get_or_init(|| parse_frozen(FROZEN).unwrap_or_else(|e| panic!("reference database unreadable: {}", e)))
}

impl RefDb {
    pub fn inst(&self, opname: &str) -> &RefInst {
        &self.insts[*self.by_name.get(opname).unwrap_or_else(|| panic!("reference has no opcode named {}", opname))]
    }
    pub fn lookup(&self, opcode: u16) -> Option<&RefInst> {
        self.by_opcode.get(&opcode).map(|i| &self.insts[*i])
    }
    pub fn enum_values(&self, k: K) -> &[(String, u32)] {
        self.enums.get(kind_name(k)).map(|v| v.as_slice()).unwrap_or(&[])
    }
    pub fn enum_declared(&self, k: K, v: u32) -> bool {
        self.enum_values(k).iter().any(|(_, x)| *x == v)
    }
    pub fn mask_consts(&self, k: K) -> &[(String, u32)] {
        self.masks.get(kind_name(k)).map(|v| v.as_slice()).unwrap_or(&[])
    }
    pub fn mask_all(&self, k: K) -> u32 {
        self.mask_consts(k).iter().fold(0, |a, (_, b)| a | b)
    }
    /// single declared bits, ascending
    pub fn mask_bits(&self, k: K) -> Vec<u32> {
        let all = self.mask_all(k);
        (0..32).map(|i| 1u32 << i).filter(|b| all & b != 0).collect()
    }
    /// Parameter kinds following value `v` of kind `k` in the binary form: the enumerant's list for a
    /// value enum; for a mask the concatenation over its set bits in ascending bit order.
    pub fn params_seq(&self, k: K, v: u32) -> Vec<(K, Q)> {
        match decls::kind_class(k) {
            0 => self.params.get(&(k, v)).cloned().unwrap_or_default(),
            1 => {
                let mut out = vec![];
                for i in 0..32 {
                    let b = 1u32 << i;
                    if v & b != 0 {
                        if let Some(p) = self.params.get(&(k, b)) {
                            out.extend(p.iter().cloned());
                        }
                    }
                }
                out
            }
            _ => vec![],
        }
    }
}

// ---------------------------------------------------------------- abstract instructions

#[derive(Clone, Debug, PartialEq, Eq, Hash)]
pub enum AVal {
    W(u32),
    W64(u64),
    S(String),
}

/// A concrete (flattened) operand: `kind` is never a Pair*/IdResult*/ kind.
/// LiteralContextDependentNumber carries W (one word) or W64 (two words, low first).
#[derive(Clone, Debug, PartialEq, Eq, Hash)]
pub struct AOp {
    pub kind: K,
    pub val: AVal,
}

impl AOp {
    pub fn w(kind: K, v: u32) -> AOp {
        AOp { kind, val: AVal::W(v) }
    }
    pub fn id(v: u32) -> AOp {
        AOp::w(K::IdRef, v)
    }
    pub fn lit(v: u32) -> AOp {
        AOp::w(K::LiteralInteger, v)
    }
    pub fn s(v: &str) -> AOp {
        AOp { kind: K::LiteralString, val: AVal::S(v.to_string()) }
    }
    pub fn word(&self) -> Option<u32> {
        match self.val {
            AVal::W(w) => Some(w),
            _ => None,
        }
    }
}

#[derive(Clone, Debug, PartialEq, Eq, Hash)]
pub struct AInst {
    pub opcode: u16,
    pub rtype: Option<u32>,
    pub rid: Option<u32>,
    pub ops: Vec<AOp>,
}

pub const MAGIC: u32 = 0x0723_0203;

pub fn enc_string(s: &str, out: &mut Vec<u32>, mask: &mut Vec<u32>, junk: &mut Option<&mut Rng>) {
    let b = s.as_bytes();
    let nwords = b.len() / 4 + 1;
    for i in 0..nwords {
        let mut w = [0u8; 4];
        let mut m = [0xffu8; 4];
        for j in 0..4 {
            let p = i * 4 + j;
            if p < b.len() {
                w[j] = b[p];
            } else if p == b.len() {
                w[j] = 0;
            } else {
                // bytes after the terminating NUL: don't care
                m[j] = 0;
                if let Some(r) = junk {
                    w[j] = r.u32() as u8;
                }
            }
        }
        out.push(u32::from_le_bytes(w));
        mask.push(u32::from_le_bytes(m));
    }
}

impl AInst {
    pub fn new(opcode: u16, rtype: Option<u32>, rid: Option<u32>, ops: Vec<AOp>) -> AInst {
        AInst { opcode, rtype, rid, ops }
    }
    pub fn named(opname: &str, rtype: Option<u32>, rid: Option<u32>, ops: Vec<AOp>) -> AInst {
        AInst { opcode: db().inst(opname).opcode, rtype, rid, ops }
    }
    pub fn opname(&self) -> String {
        db().lookup(self.opcode).map(|r| r.opname.clone()).unwrap_or_else(|| format!("#{}", self.opcode))
    }
    /// Reference encoding: (words, compare-mask). Mask bytes of 0 mark post-NUL string padding.
    pub fn enc_masked(&self, mut junk: Option<&mut Rng>) -> (Vec<u32>, Vec<u32>) {
        let mut w = vec![0u32];
        let mut m = vec![0xffff_ffffu32];
        if let Some(t) = self.rtype {
            w.push(t);
            m.push(!0);
        }
        if let Some(r) = self.rid {
            w.push(r);
            m.push(!0);
        }
        for o in &self.ops {
            match &o.val {
                AVal::W(x) => {
                    w.push(*x);
                    m.push(!0);
                }
                AVal::W64(x) => {
                    w.push(*x as u32);
                    w.push((*x >> 32) as u32);
                    m.push(!0);
                    m.push(!0);
                }
                AVal::S(s) => enc_string(s, &mut w, &mut m, &mut junk),
            }
        }
        w[0] = ((w.len() as u32) << 16) | self.opcode as u32;
        (w, m)
    }
    pub fn enc(&self) -> Vec<u32> {
        self.enc_masked(None).0
    }
    /// The `dr::Instruction` this abstract instruction denotes (None if the opcode or an enumerant
    /// is not representable in the live crate).
    pub fn to_dr(&self) -> Option<dr::Instruction> {
        let op = decls::op_by_value(self.opcode as u32)?;
        let mut ops = Vec::with_capacity(self.ops.len());
        for o in &self.ops {
            ops.push(aop_to_dr(o)?);
        }
        // dr::Instruction::new uses CoreInstructionTable::get, which panics for an opcode without
        // table entry; guard through lookup_opcode first.
        rspirv::grammar::CoreInstructionTable::lookup_opcode(self.opcode)?;
        Some(dr::Instruction::new(op, self.rtype, self.rid, ops))
    }
    pub fn show(&self) -> String {
        let mut s = String::new();
        if let Some(r) = self.rid {
            s.push_str(&format!("%{} = ", r));
        }
        s.push_str("Op");
        s.push_str(&self.opname());
        if let Some(t) = self.rtype {
            s.push_str(&format!(" %{}", t));
        }
        for o in &self.ops {
            match &o.val {
                AVal::W(w) => s.push_str(&format!(" {}:{}", kind_name(o.kind), w)),
                AVal::W64(w) => s.push_str(&format!(" {}:{}u64", kind_name(o.kind), w)),
                AVal::S(t) => s.push_str(&format!(" {:?}", t)),
            }
        }
        s
    }
}

pub fn aop_to_dr(o: &AOp) -> Option<dr::Operand> {
    Some(match (&o.kind, &o.val) {
        (K::IdRef, AVal::W(w)) => dr::Operand::IdRef(*w),
        (K::IdScope, AVal::W(w)) => dr::Operand::IdScope(*w),
        (K::IdMemorySemantics, AVal::W(w)) => dr::Operand::IdMemorySemantics(*w),
        (K::LiteralInteger, AVal::W(w)) | (K::LiteralFloat, AVal::W(w)) | (K::LiteralContextDependentNumber, AVal::W(w)) => dr::Operand::LiteralBit32(*w),
        (K::LiteralContextDependentNumber, AVal::W64(w)) => dr::Operand::LiteralBit64(*w),
        (K::LiteralExtInstInteger, AVal::W(w)) => dr::Operand::LiteralExtInstInteger(*w),
        (K::LiteralSpecConstantOpInteger, AVal::W(w)) => dr::Operand::LiteralSpecConstantOpInteger(decls::op_by_value(*w)?),
        (K::LiteralString, AVal::S(s)) => dr::Operand::LiteralString(s.clone()),
        (k, AVal::W(w)) if decls::kind_class(*k) < 2 => decls::mk_enum_operand(*k, *w)?,
        _ => return None,
    })
}

/// Header words for a module.
pub fn header(version: u32, generator: u32, bound: u32) -> Vec<u32> {
    vec![MAGIC, version, generator, bound, 0]
}

/// A header whose version and generator words are chosen by `key` from values the parser may (wrongly) act
/// upon: every known version, later minor / major versions, registered generator ids with old and new tool
/// versions, zero and arbitrary words. What a binary's instructions mean must not depend on them.
pub fn header_varied(key: u64, bound: u32) -> Vec<u32> {
    let k = crate::util::mix(key ^ 0x6865_6164);
    const VERSIONS: &[u32] = &[0x0001_0000, 0x0001_0100, 0x0001_0200, 0x0001_0300, 0x0001_0400, 0x0001_0500, 0x0001_0600, 0x0001_0700, 0x0001_0800, 0x0001_ff00, 0x0002_0000];
    let version = VERSIONS[(k % VERSIONS.len() as u64) as usize];
    let g = k >> 8;
    let generator = match g % 4 {
        0 => 0,
        1 => (((g >> 4) % 46) as u32) << 16 | ((g >> 12) % 24) as u32,
        2 => (((g >> 4) % 46) as u32) << 16 | [0u32, 1, 0xffff, 0x100][((g >> 12) % 4) as usize],
        _ => (g >> 4) as u32,
    };
    header(version, generator, bound)
}

pub fn version_word(major: u8, minor: u8) -> u32 {
    ((major as u32) << 16) | ((minor as u32) << 8)
}

/// Which dr::Operand variant name a concrete AOp maps to (for diagnostics and kind checks).
pub fn dr_variant_name(o: &dr::Operand) -> String {
    let d = format!("{:?}", o);
    d.split('(').next().unwrap_or("").to_string()
}
