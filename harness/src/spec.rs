//! Hand-transcribed classification of core opcodes from the SPIR-V 1.6 specification
//! (§2.4 logical layout, §2.2.5/§3 block termination, instruction classes of §3.52).
//! Oracle data: three-valued (`In`, `Out`, `Unspecified`). Monitors never judge `Unspecified`.

#[derive(Clone, Copy, Debug, PartialEq, Eq, Hash, PartialOrd, Ord)]
pub enum Tri {
    In,
    Out,
    Unspecified,
}

/// Module sections in logical-layout order (index = rank in `dr::Module` / assembly order).
#[derive(Clone, Copy, Debug, PartialEq, Eq, Hash, PartialOrd, Ord)]
pub enum Section {
    Capabilities = 0,
    Extensions = 1,
    ExtInstImports = 2,
    MemoryModel = 3,
    EntryPoints = 4,
    ExecutionModes = 5,
    DebugStringSource = 6,
    DebugNames = 7,
    DebugModuleProcessed = 8,
    Annotations = 9,
    TypesGlobalValues = 10,
}
pub const SECTION_NAMES: [&str; 11] = [
    "capabilities",
    "extensions",
    "ext_inst_imports",
    "memory_model",
    "entry_points",
    "execution_modes",
    "debug_string_source",
    "debug_names",
    "debug_module_processed",
    "annotations",
    "types_global_values",
];

pub const ANNOTATION_OPS: [&str; 8] = ["Decorate", "MemberDecorate", "DecorationGroup", "GroupDecorate", "GroupMemberDecorate", "DecorateId", "DecorateString", "MemberDecorateString"];
pub const CONSTANT_OPS: [&str; 15] = [
    "ConstantTrue",
    "ConstantFalse",
    "Constant",
    "ConstantComposite",
    "ConstantSampler",
    "ConstantNull",
    "SpecConstantTrue",
    "SpecConstantFalse",
    "SpecConstant",
    "SpecConstantComposite",
    "SpecConstantOp",
    "ConstantCompositeReplicateEXT",
    "SpecConstantCompositeReplicateEXT",
    "ConstantCompositeContinuedINTEL",
    "SpecConstantCompositeContinuedINTEL",
];
pub const CONSTANT_UNSPEC: [&str; 4] = ["ConstantPipeStorage", "ConstantStringAMDX", "SpecConstantStringAMDX", "ConstantFunctionPointerINTEL"];
pub const LOCATION_DEBUG_OPS: [&str; 2] = ["Line", "NoLine"];
pub const NONLOCATION_DEBUG_OPS: [&str; 7] = ["SourceContinued", "Source", "SourceExtension", "Name", "MemberName", "String", "ModuleProcessed"];
pub const BRANCH_OPS: [&str; 3] = ["Branch", "BranchConditional", "Switch"];
pub const RETURN_OPS: [&str; 2] = ["Return", "ReturnValue"];
pub const ABORT_OPS: [&str; 6] = ["Kill", "Unreachable", "TerminateInvocation", "IgnoreIntersectionKHR", "TerminateRayKHR", "EmitMeshTasksEXT"];
/// Opcodes whose module-scope placement the core specification does not fix by opcode alone
/// (vendor / context dependent). Generators use them only inside blocks; monitors do not judge
/// how the loader files them at module level.
pub const PLACEMENT_UNSPEC: [&str; 14] = [
    "Nop",
    "ExtInst",
    "ExtInstWithForwardRefsKHR",
    "UntypedVariableKHR",
    "ConstantPipeStorage",
    "ConstantStringAMDX",
    "SpecConstantStringAMDX",
    "ConstantFunctionPointerINTEL",
    "AsmTargetINTEL",
    "AsmINTEL",
    "AliasDomainDeclINTEL",
    "AliasScopeDeclINTEL",
    "AliasScopeListDeclINTEL",
    "SamplerImageAddressingModeNV",
];

fn has(list: &[&str], n: &str) -> bool {
    list.iter().any(|x| *x == n)
}

pub fn is_type(opname: &str) -> Tri {
    if opname.starts_with("Type") {
        Tri::In
    } else {
        Tri::Out
    }
}
pub fn is_constant(opname: &str) -> Tri {
    if has(&CONSTANT_OPS, opname) {
        Tri::In
    } else if has(&CONSTANT_UNSPEC, opname) {
        Tri::Unspecified
    } else {
        Tri::Out
    }
}
pub fn is_annotation(opname: &str) -> Tri {
    if has(&ANNOTATION_OPS, opname) {
        Tri::In
    } else {
        Tri::Out
    }
}
pub fn is_location_debug(opname: &str) -> Tri {
    if has(&LOCATION_DEBUG_OPS, opname) {
        Tri::In
    } else {
        Tri::Out
    }
}
pub fn is_nonlocation_debug(opname: &str) -> Tri {
    if has(&NONLOCATION_DEBUG_OPS, opname) {
        Tri::In
    } else {
        Tri::Out
    }
}
pub fn is_variable(opname: &str) -> Tri {
    match opname {
        "Variable" => Tri::In,
        "UntypedVariableKHR" => Tri::Unspecified,
        _ => Tri::Out,
    }
}
pub fn is_branch(opname: &str) -> Tri {
    if has(&BRANCH_OPS, opname) {
        Tri::In
    } else {
        Tri::Out
    }
}
pub fn is_return(opname: &str) -> Tri {
    if has(&RETURN_OPS, opname) {
        Tri::In
    } else {
        Tri::Out
    }
}
pub fn is_abort(opname: &str) -> Tri {
    if has(&ABORT_OPS, opname) {
        Tri::In
    } else {
        Tri::Out
    }
}
pub fn is_block_terminator(opname: &str) -> bool {
    has(&BRANCH_OPS, opname) || has(&RETURN_OPS, opname) || has(&ABORT_OPS, opname)
}

/// Symbol classes of the loader alphabet.
#[derive(Clone, Copy, Debug, PartialEq, Eq, Hash, PartialOrd, Ord)]
pub enum Sym {
    /// module-level instruction whose section is fixed by its opcode
    Global(Section),
    /// OpVariable / OpUndef: module-level exactly when no function is open
    VarUndef,
    /// OpLine / OpNoLine
    Line,
    Function,
    FunctionEnd,
    Parameter,
    Label,
    Terminator,
    /// any other instruction: must be inside an open block
    BlockInst,
    /// placement not fixed by the specification: not judged at module level
    Unspecified,
}

pub fn classify(opname: &str) -> Sym {
    use Section::*;
    match opname {
        "Capability" => Sym::Global(Capabilities),
        "Extension" => Sym::Global(Extensions),
        "ExtInstImport" => Sym::Global(ExtInstImports),
        "MemoryModel" => Sym::Global(MemoryModel),
        "EntryPoint" => Sym::Global(EntryPoints),
        "ExecutionMode" | "ExecutionModeId" => Sym::Global(ExecutionModes),
        "String" | "SourceExtension" | "Source" | "SourceContinued" => Sym::Global(DebugStringSource),
        "Name" | "MemberName" => Sym::Global(DebugNames),
        "ModuleProcessed" => Sym::Global(DebugModuleProcessed),
        "Line" | "NoLine" => Sym::Line,
        "Variable" | "Undef" => Sym::VarUndef,
        "Function" => Sym::Function,
        "FunctionEnd" => Sym::FunctionEnd,
        "FunctionParameter" => Sym::Parameter,
        "Label" => Sym::Label,
        n if has(&ANNOTATION_OPS, n) => Sym::Global(Annotations),
        n if has(&PLACEMENT_UNSPEC, n) => Sym::Unspecified,
        n if n.starts_with("Type") => Sym::Global(TypesGlobalValues),
        n if has(&CONSTANT_OPS, n) => Sym::Global(TypesGlobalValues),
        n if is_block_terminator(n) => Sym::Terminator,
        _ => Sym::BlockInst,
    }
}

/// Opcodes the specification allows as the payload of OpSpecConstantOp (core 1.6 list).
pub const SPEC_CONSTANT_OP_PAYLOADS: [&str; 60] = [
    "SConvert",
    "FConvert",
    "SNegate",
    "Not",
    "IAdd",
    "ISub",
    "IMul",
    "UDiv",
    "SDiv",
    "UMod",
    "SRem",
    "SMod",
    "ShiftRightLogical",
    "ShiftRightArithmetic",
    "ShiftLeftLogical",
    "BitwiseOr",
    "BitwiseXor",
    "BitwiseAnd",
    "VectorShuffle",
    "CompositeExtract",
    "CompositeInsert",
    "LogicalOr",
    "LogicalAnd",
    "LogicalNot",
    "LogicalEqual",
    "LogicalNotEqual",
    "Select",
    "IEqual",
    "INotEqual",
    "ULessThan",
    "SLessThan",
    "UGreaterThan",
    "SGreaterThan",
    "ULessThanEqual",
    "SLessThanEqual",
    "UGreaterThanEqual",
    "SGreaterThanEqual",
    "QuantizeToF16",
    "ConvertFToS",
    "ConvertSToF",
    "ConvertFToU",
    "ConvertUToF",
    "UConvert",
    "ConvertPtrToU",
    "ConvertUToPtr",
    "GenericCastToPtr",
    "PtrCastToGeneric",
    "Bitcast",
    "FNegate",
    "FAdd",
    "FSub",
    "FMul",
    "FDiv",
    "FRem",
    "FMod",
    "AccessChain",
    "InBoundsAccessChain",
    "PtrAccessChain",
    "InBoundsPtrAccessChain",
    "CooperativeMatrixLengthKHR",
];
