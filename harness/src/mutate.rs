//! Structured mutators over well-formed binaries. The label says what was intended; the oracle is
//! always the reference parser, never the label.

use crate::generated::decls;
use crate::gram::{db, AInst, AVal, K, MAGIC};
use crate::util::Rng;

pub struct Base<'a> {
    pub words: &'a [u32],
    /// word index of the first word of each instruction
    pub starts: &'a [usize],
    pub insts: &'a [AInst],
}

pub const N_MUTATORS: usize = 19;

const TERMINATORS: [&str; 11] = ["Branch", "BranchConditional", "Switch", "Return", "ReturnValue", "Kill", "Unreachable", "TerminateInvocation", "IgnoreIntersectionKHR", "TerminateRayKHR", "EmitMeshTasksEXT"];

fn to_bytes(w: &[u32]) -> Vec<u8> {
    crate::util::words_to_bytes(w)
}

/// Word offsets (relative to the instruction start) of every operand of `inst`, with its kind.
fn operand_positions(inst: &AInst) -> Vec<(usize, K, usize)> {
    let mut pos = 1 + inst.rtype.is_some() as usize + inst.rid.is_some() as usize;
    let mut v = vec![];
    for o in &inst.ops {
        let len = match &o.val {
            AVal::W(_) => 1,
            AVal::W64(_) => 2,
            AVal::S(s) => s.len() / 4 + 1,
        };
        v.push((pos, o.kind, len));
        pos += len;
    }
    v
}

fn undeclared_value(rng: &mut Rng, k: K) -> u32 {
    let d = db();
    // values the LIVE enumeration declares but the frozen reference does not (a grammar update): undeclared by
    // the pinned grammar, and the likeliest numbers for the library to accept wrongly
    if decls::kind_class(k) == 0 && rng.chance(1, 2) {
        if let Some(e) = decls::ENUMS.iter().find(|e| e.name == crate::gram::kind_name(k)) {
            let extra: Vec<u32> = e.variants.iter().map(|(_, v)| *v).filter(|v| !d.enum_declared(k, *v)).collect();
            if !extra.is_empty() {
                return *rng.pick(&extra);
            }
        }
    }
    for _ in 0..50 {
        let cand = match decls::kind_class(k) {
            0 => {
                let vals = d.enum_values(k);
                let base = vals[rng.below(vals.len())].1;
                match rng.below(5) {
                    0 => base.wrapping_add(1),
                    1 => base.wrapping_sub(1),
                    2 => base | 0x8000_0000,
                    3 => base | 0x0001_0000,
                    _ => rng.u32(),
                }
            }
            _ => {
                let all = d.mask_all(k);
                let free = !all;
                if free == 0 {
                    return 0;
                }
                let mut b = 1u32 << rng.below(32);
                while b & free == 0 {
                    b = b.rotate_left(1);
                }
                b | (rng.u32() & all)
            }
        };
        let bad = match decls::kind_class(k) {
            0 => !d.enum_declared(k, cand),
            _ => cand & !d.mask_all(k) != 0,
        };
        if bad {
            return cand;
        }
    }
    0xdead_beef
}

/// Applies mutator number `m` (0..N_MUTATORS) at a position chosen by `rng`.
pub fn mutate(rng: &mut Rng, b: &Base, m: usize) -> (Vec<u8>, String) {
    let n = b.starts.len();
    let pick_inst = |rng: &mut Rng| if n == 0 { None } else { Some(rng.below(n)) };
    let inst_range = |j: usize| {
        let s = b.starts[j];
        let e = if j + 1 < n { b.starts[j + 1] } else { b.words.len() };
        (s, e)
    };
    let mut w = b.words.to_vec();
    match m {
        0 => {
            // truncation at a byte offset
            let bytes = to_bytes(&w);
            let cut = rng.below(bytes.len() + 1);
            (bytes[..cut].to_vec(), format!("truncate@{}", cut))
        }
        1 => {
            // truncation inside the last instruction at every granularity
            let bytes = to_bytes(&w);
            let lo = if n > 0 { b.starts[n - 1] * 4 } else { 0 };
            let cut = lo + rng.below(bytes.len() - lo + 1);
            (bytes[..cut].to_vec(), format!("truncate-last@{}", cut))
        }
        2 => {
            // word count corruption
            if let Some(j) = pick_inst(rng) {
                let (s, e) = inst_range(j);
                let wc = (e - s) as u32;
                let rest = (b.words.len() - s) as u32;
                let new = match rng.below(8) {
                    0 => 0,
                    1 => 1,
                    2 => wc.saturating_sub(1),
                    3 => wc + 1,
                    4 => 0xffff,
                    5 => rest,
                    6 => rest + 1,
                    _ => rng.below(0x10000) as u32,
                };
                w[s] = (new << 16) | (w[s] & 0xffff);
                (to_bytes(&w), format!("wordcount inst#{} {}->{}", j + 1, wc, new))
            } else {
                (to_bytes(&w), "noop".into())
            }
        }
        3 => {
            // opcode substitution with an unknown number
            if let Some(j) = pick_inst(rng) {
                let (s, _) = inst_range(j);
                let d = db();
                let mut op = rng.below(0x10000) as u16;
                for _ in 0..100 {
                    if d.lookup(op).is_none() {
                        break;
                    }
                    op = if rng.chance(1, 2) { op.wrapping_add(1) } else { rng.below(0x10000) as u16 };
                }
                w[s] = (w[s] & 0xffff_0000) | op as u32;
                (to_bytes(&w), format!("opcode inst#{} -> {}", j + 1, op))
            } else {
                (to_bytes(&w), "noop".into())
            }
        }
        4 => {
            // opcode substitution with another known opcode (operands no longer fit)
            if let Some(j) = pick_inst(rng) {
                let (s, _) = inst_range(j);
                let d = db();
                let op = d.insts[rng.below(d.insts.len())].opcode;
                w[s] = (w[s] & 0xffff_0000) | op as u32;
                (to_bytes(&w), format!("opcode inst#{} -> known {}", j + 1, op))
            } else {
                (to_bytes(&w), "noop".into())
            }
        }
        5 => {
            // undeclared enumerant / mask bits
            let cands: Vec<(usize, usize, K)> = (0..n).flat_map(|j| operand_positions(&b.insts[j]).into_iter().filter(|(_, k, _)| decls::kind_class(*k) < 2).map(move |(p, k, _)| (j, p, k))).collect();
            if cands.is_empty() {
                return (to_bytes(&w), "noop".into());
            }
            let (j, p, k) = cands[rng.below(cands.len())];
            let v = undeclared_value(rng, k);
            w[b.starts[j] + p] = v;
            (to_bytes(&w), format!("enumerant inst#{} word{} {:?} -> {:#x}", j + 1, p, k, v))
        }
        6 => {
            // drop an operand word (word count adjusted or not)
            if let Some(j) = pick_inst(rng) {
                let (s, e) = inst_range(j);
                if e - s < 2 {
                    return (to_bytes(&w), "noop".into());
                }
                let p = s + 1 + rng.below(e - s - 1);
                w.remove(p);
                let adjust = rng.chance(2, 3);
                if adjust {
                    w[s] = (((e - s - 1) as u32) << 16) | (w[s] & 0xffff);
                }
                (to_bytes(&w), format!("drop-word inst#{} adjust={}", j + 1, adjust))
            } else {
                (to_bytes(&w), "noop".into())
            }
        }
        7 => {
            // insert / duplicate an operand word
            if let Some(j) = pick_inst(rng) {
                let (s, e) = inst_range(j);
                let p = s + 1 + rng.below(e - s);
                let v = if rng.chance(1, 2) && p < e { w[p] } else { rng.word() };
                w.insert(p, v);
                let adjust = rng.chance(2, 3);
                if adjust && e - s + 1 <= 0xffff {
                    w[s] = (((e - s + 1) as u32) << 16) | (w[s] & 0xffff);
                }
                (to_bytes(&w), format!("insert-word inst#{} adjust={}", j + 1, adjust))
            } else {
                (to_bytes(&w), "noop".into())
            }
        }
        8 => {
            // header damage
            match rng.below(6) {
                0 => {
                    // the other byte order: only the magic number, or every word of the module (what a
                    // big-endian producer writes), optionally cut at an arbitrary byte
                    if rng.chance(1, 2) {
                        w[0] = MAGIC.swap_bytes();
                    } else {
                        for x in w.iter_mut() {
                            *x = x.swap_bytes();
                        }
                        let mut bytes = to_bytes(&w);
                        if rng.chance(1, 2) {
                            let cut = rng.below(bytes.len() + 1);
                            bytes.truncate(cut);
                        }
                        return (bytes, "module in the other byte order (possibly truncated)".to_string());
                    }
                }
                1 => w[0] = rng.u32(),
                2 => w[0] ^= 1 << rng.below(32),
                3 => {
                    let bytes = to_bytes(&w);
                    let cut = rng.below(21);
                    return (bytes[..cut.min(bytes.len())].to_vec(), format!("header-truncated@{}", cut));
                }
                4 => w[1] = rng.u32(),
                _ => w[4] = rng.u32(),
            }
            (to_bytes(&w), "header".into())
        }
        9 => {
            // 1..3 trailing bytes
            let mut bytes = to_bytes(&w);
            for _ in 0..rng.range(1, 3) {
                bytes.push(rng.u32() as u8);
            }
            (bytes, "trailing-bytes".into())
        }
        10 => {
            // random byte noise
            let mut bytes = to_bytes(&w);
            if bytes.len() > 20 {
                for _ in 0..rng.range(1, 4) {
                    let p = 20 + rng.below(bytes.len() - 20);
                    bytes[p] = rng.u32() as u8;
                }
            }
            (bytes, "byte-noise".into())
        }
        11 => {
            // string damage: remove terminator / invalid UTF-8
            let cands: Vec<(usize, usize, usize)> = (0..n).flat_map(|j| operand_positions(&b.insts[j]).into_iter().filter(|(_, k, _)| *k == K::LiteralString).map(move |(p, _, l)| (j, p, l))).collect();
            if cands.is_empty() {
                return (to_bytes(&w), "noop".into());
            }
            let (j, p, l) = cands[rng.below(cands.len())];
            let at = b.starts[j] + p;
            let mut bytes = to_bytes(&w);
            if rng.chance(1, 2) {
                for x in bytes[at * 4..(at + l) * 4].iter_mut() {
                    if *x == 0 {
                        *x = b'x';
                    }
                }
                (bytes, format!("string-unterminated inst#{}", j + 1))
            } else {
                let q = at * 4 + rng.below(l * 4);
                bytes[q] = *rng.pick(&[0xffu8, 0xc0, 0x80, 0xf8]);
                (bytes, format!("string-bad-utf8 inst#{}", j + 1))
            }
        }
        12 => {
            // word substitution anywhere in an instruction
            if let Some(j) = pick_inst(rng) {
                let (s, e) = inst_range(j);
                let p = s + rng.below(e - s);
                w[p] = rng.word();
                (to_bytes(&w), format!("word-subst inst#{} word{}", j + 1, p - s))
            } else {
                (to_bytes(&w), "noop".into())
            }
        }
        13 => {
            // spec constant op payload: any opcode number, also beyond 16 bits
            let d = db();
            let sc = d.inst("SpecConstantOp").opcode as u32;
            let n_op = match rng.below(4) {
                0 => d.insts[rng.below(d.insts.len())].opcode as u32,
                1 => d.insts[rng.below(d.insts.len())].opcode as u32 | ((rng.range(1, 0xffff) as u32) << 16),
                2 => rng.below(0x10000) as u32,
                _ => rng.u32(),
            };
            let extra = rng.below(5);
            let mut inst = vec![((4 + extra as u32) << 16) | sc, 900_001, 900_002, n_op];
            for _ in 0..extra {
                inst.push(rng.word());
            }
            let at = if n == 0 { w.len() } else { b.starts[rng.below(n)] };
            let tail = w.split_off(at);
            w.extend(inst);
            w.extend(tail);
            (to_bytes(&w), format!("spec-constant-op payload {:#x} +{} words", n_op, extra))
        }
        14 => {
            // constant of undeclared / non-numeric / unsupported type appended
            let d = db();
            let c = d.inst(if rng.chance(1, 2) { "Constant" } else { "SpecConstant" }).opcode as u32;
            let ty = match rng.below(3) {
                0 => rng.below(2000) as u32,
                1 => 1000 + rng.below(12) as u32,
                _ => rng.u32(),
            };
            let nw = rng.range(1, 3);
            let mut inst = vec![((3 + nw as u32) << 16) | c, ty, 900_003];
            for _ in 0..nw {
                inst.push(rng.word());
            }
            w.extend(inst);
            // ... whose type is declared only AFTERWARDS, with a width at the edge of every range (the parser
            // has sized the literal as "unknown type"; a disassembler that scans all declarations first sees
            // the late one)
            let mut late = String::new();
            if rng.chance(1, 2) {
                let width = *rng.pick(&[0u32, 1, 7, 8, 9, 15, 16, 17, 31, 32, 33, 63, 64, 65, 127, 128, 0x8000_0000, u32::MAX]);
                if rng.chance(1, 2) {
                    w.extend([(4 << 16) | d.inst("TypeInt").opcode as u32, ty, width, rng.below(2) as u32]);
                    late = format!(", then %{} = OpTypeInt {}", ty, width);
                } else {
                    w.extend([(3 << 16) | d.inst("TypeFloat").opcode as u32, ty, width]);
                    late = format!(", then %{} = OpTypeFloat {}", ty, width);
                }
            }
            (to_bytes(&w), format!("constant of type %{} with {} literal words{}", ty, nw, late))
        }
        15 => {
            // a module header where an instruction must start: two modules concatenated, a module repeated
            // after itself, or just the first words of a header
            let j = rng.below(b.starts.len() + 1);
            let at = if j < b.starts.len() { b.starts[j] } else { b.words.len() };
            let mut w = b.words[..at].to_vec();
            let kind = rng.below(6);
            match kind {
                0 => w.push(MAGIC),
                1 => w.extend_from_slice(&b.words[..2]),
                2 => w.extend_from_slice(&b.words[..5]),
                3 => w.extend_from_slice(&[MAGIC, 0x0001_0000, 0, 0, 0]),
                4 => w.extend_from_slice(b.words),
                _ => w.extend_from_slice(&[MAGIC.swap_bytes(), 0x0000_0100, 0, 0, 0]),
            }
            if rng.chance(1, 2) {
                w.extend_from_slice(&b.words[at..]);
            }
            (to_bytes(&w), format!("module header (kind {}) embedded before instruction #{}", kind, j + 1))
        }
        16 => {
            // an id defined twice: a numeric type re-declared with another width / kind / signedness (before or
            // after its users), a value or function id defined again by a copy of its instruction or by another
            // instruction; or a wrapper in front of the module (length-prefixed blob, padding)
            let d = db();
            let mut w = b.words.to_vec();
            let defs: Vec<usize> = (0..b.insts.len()).filter(|i| b.insts[*i].rid.is_some()).collect();
            let kind = rng.below(5);
            if kind == 4 || defs.is_empty() {
                let n = (w.len() * 4) as u32;
                let prefix: Vec<u32> = match rng.below(5) {
                    0 => vec![n],
                    1 => vec![n.wrapping_sub(4)],
                    2 => vec![n / 4],
                    3 => vec![0],
                    _ => vec![n, 0],
                };
                let mut out = prefix.clone();
                out.extend(w);
                if rng.chance(1, 2) {
                    out[0] = (out.len() as u32 * 4).wrapping_sub(4);
                }
                return (to_bytes(&out), format!("module wrapped behind {} prefix word(s)", prefix.len()));
            }
            let j = *rng.pick(&defs);
            let inst = &b.insts[j];
            let id = inst.rid.unwrap();
            let is_num = inst.opname() == "TypeInt" || inst.opname() == "TypeFloat";
            let again: Vec<u32> = if is_num || kind == 0 {
                let width = *rng.pick(&[0u32, 8, 16, 32, 64, 128, 33]);
                if rng.chance(1, 2) {
                    vec![(4 << 16) | d.inst("TypeInt").opcode as u32, id, width, rng.below(2) as u32]
                } else {
                    vec![(3 << 16) | d.inst("TypeFloat").opcode as u32, id, width]
                }
            } else if kind == 1 {
                // the same instruction again
                let e = if j + 1 < b.starts.len() { b.starts[j + 1] } else { b.words.len() };
                b.words[b.starts[j]..e].to_vec()
            } else {
                vec![(3 << 16) | d.inst("Undef").opcode as u32, id.wrapping_add(1), id]
            };
            let after = rng.range(j + 1, b.starts.len());
            let at = if after < b.starts.len() { b.starts[after] } else { w.len() };
            let tail = w.split_off(at);
            w.extend(again);
            w.extend(tail);
            (to_bytes(&w), format!("id %{} of instruction #{} defined again before instruction #{}", id, j + 1, after + 1))
        }
        17 => {
            // bracket damage: a structural instruction (function begin / end, label, terminator; otherwise any
            // instruction) moved a few places, swapped with its neighbour, removed or repeated -- a function
            // that ends while its block is open, a terminator outside any function, a label before its function
            if n == 0 {
                return (to_bytes(&w), "noop".into());
            }
            let structural: Vec<usize> = (0..n)
                .filter(|j| {
                    let o = b.insts[*j].opname();
                    o == "Function" || o == "FunctionEnd" || o == "Label" || o == "FunctionParameter" || TERMINATORS.contains(&o.as_str())
                })
                .collect();
            let j = if !structural.is_empty() && rng.chance(3, 4) { *rng.pick(&structural) } else { rng.below(n) };
            let mut chunks: Vec<Vec<u32>> = (0..n).map(|i| { let (s, e) = inst_range(i); b.words[s..e].to_vec() }).collect();
            let head = b.words[..b.starts[0]].to_vec();
            let finish = move |chunks: Vec<Vec<u32>>, label: String| {
                let mut out = head.clone();
                for c in chunks {
                    out.extend(c);
                }
                (to_bytes(&out), label)
            };
            let what = match rng.below(6) {
                0 => {
                    chunks.remove(j);
                    "removed".to_string()
                }
                1 => {
                    let c = chunks[j].clone();
                    let at = rng.below(chunks.len() + 1);
                    chunks.insert(at, c);
                    format!("repeated before instruction #{}", at + 1)
                }
                2 | 3 if structural.iter().any(|i| b.insts[*i].opname() == "FunctionEnd" && *i > 0) => {
                    // the end of a function changes places with the instruction in front of it (usually the
                    // terminator of the last block: the function ends while its block is open)
                    let ends: Vec<usize> = structural.iter().cloned().filter(|i| b.insts[*i].opname() == "FunctionEnd" && *i > 0).collect();
                    let e = *rng.pick(&ends);
                    chunks.swap(e - 1, e);
                    return finish(chunks, format!("OpFunctionEnd (instruction #{}) swapped with the instruction in front of it", e + 1));
                }
                _ => {
                    let d = *rng.pick(&[-3i64, -2, -1, -1, 1, 1, 2, 3]);
                    let to = (j as i64 + d).clamp(0, n as i64 - 1) as usize;
                    let c = chunks.remove(j);
                    chunks.insert(to, c);
                    format!("moved to position #{}", to + 1)
                }
            };
            let (bytes, _) = finish(chunks, String::new());
            (bytes, format!("Op{} (instruction #{}) {}", b.insts[j].opname(), j + 1, what))
        }
        _ => {
            // two mutations stacked
            let a = rng.below(13);
            let (bytes1, l1) = mutate(rng, b, a);
            if bytes1.len() >= 24 && bytes1.len() % 4 == 0 {
                let mut bytes = bytes1;
                let p = 20 + rng.below(bytes.len() - 20);
                bytes[p] ^= 1 << rng.below(8);
                (bytes, format!("{} + bitflip@{}", l1, p))
            } else {
                (bytes1, l1)
            }
        }
    }
}
