//! vmon: runtime monitors with reference models for the rspirv properties C01..C20.
pub mod generated {
    pub mod builder_stubs;
    pub mod decls;
    pub mod sr_ops;
}
pub mod util;
pub mod gram;
pub mod spec;
pub mod model;
pub mod geninst;
pub mod genmod;
pub mod refparse;
pub mod scale;
pub mod dbgtree;
pub mod textread;
pub mod bmodel;
pub mod loadcmp;
pub mod mutate;
pub mod rs;
pub mod dump;
pub mod mon;
