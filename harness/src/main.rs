use std::time::Instant;
use vmon::util::{self, Cfg, Json, Report};

fn usage() -> ! {
    eprintln!("usage: vmon <ID> [--tier quick|thorough] [--seed N] [--threads N] [--out report.json] [--case stage:index] [--scale-div N] [--mode debug|release|miri|asan]\n       vmon dump-reference");
    std::process::exit(2)
}

fn main() {
    let args: Vec<String> = std::env::args().collect();
    if args.len() < 2 {
        usage();
    }
    if args[1] == "dump-reference" {
        print!("{}", vmon::dump::dump_reference());
        return;
    }
    let id = args[1].clone();
    let mut cfg = Cfg { tier_thorough: false, seed: 0, threads: std::thread::available_parallelism().map(|n| n.get()).unwrap_or(4), only: None, scale_div: 1, mode: "debug".into(), shard: None, corpus: None };
    let mut out: Option<String> = None;
    let mut i = 2;
    while i < args.len() {
        let v = args.get(i + 1).cloned();
        match args[i].as_str() {
            "--tier" => cfg.tier_thorough = v.as_deref() == Some("thorough"),
            "--seed" => cfg.seed = v.as_deref().and_then(|s| s.parse().ok()).unwrap_or(0),
            "--threads" => cfg.threads = v.as_deref().and_then(|s| s.parse().ok()).unwrap_or(1),
            "--out" => out = v.clone(),
            "--scale-div" => cfg.scale_div = v.as_deref().and_then(|s| s.parse().ok()).unwrap_or(1),
            "--mode" => cfg.mode = v.clone().unwrap_or_default(),
            "--corpus" => cfg.corpus = v.clone(),
            "--shard" => {
                let s = v.clone().unwrap_or_default();
                let (a, b) = s.split_once('/').unwrap_or_else(|| usage());
                cfg.shard = Some((a.parse().unwrap_or_else(|_| usage()), b.parse().unwrap_or_else(|_| usage())));
            }
            "--case" => {
                let s = v.clone().unwrap_or_default();
                let (st, ix) = s.rsplit_once(':').unwrap_or_else(|| usage());
                cfg.only = Some((st.to_string(), ix.parse().unwrap_or_else(|_| usage())));
            }
            _ => usage(),
        }
        i += 2;
    }
    util::install_panic_hook();
    if let (Some(o), None, false) = (&out, &cfg.only, cfg.mode == "miri") {
        util::open_journal(&format!("{}.journal", o));
    }
    let mons = vmon::mon::monitors();
    let m = match mons.iter().find(|(n, _)| *n == id) {
        Some(m) => m,
        None => {
            eprintln!("unknown monitor {}", id);
            std::process::exit(2)
        }
    };
    let t0 = Instant::now();
    let mut rep = Report::new(&id);
    (m.1)(&cfg, &mut rep);
    let wall = t0.elapsed().as_secs_f64();
    let mut j = rep.to_json();
    j.put("wall_s", wall);
    j.put("seed", cfg.seed);
    j.put("tier", if cfg.tier_thorough { "thorough" } else { "quick" });
    j.put("mode", cfg.mode.clone());
    let text = j.to_string();
    match out {
        Some(p) => {
            std::fs::write(&p, text).expect("cannot write report");
            let _ = std::fs::remove_file(format!("{}.journal", p));
        }
        None => println!("{}", text),
    }
    let _ = Json::Null;
}
