//! Executable reference models written from the property statements:
//! * type-width model (C10) used by the reference parser and the generators,
//! * loader automaton (C05) used by C01/C05/C06.

use crate::gram::{db, AInst, AVal};
use crate::spec::{self, Section, Sym};
use std::collections::{HashMap, HashSet};

// ---------------------------------------------------------------- type-width model

#[derive(Clone, Copy, Debug, PartialEq, Eq, Hash)]
pub enum NumTy {
    Int(u32, bool),
    Float(u32),
}

#[derive(Clone, Copy, Debug, PartialEq, Eq)]
pub enum Width {
    One,
    Two,
    Unsupported,
    /// the id was defined more than once: outside the property's quantifier ("ids defined once")
    Ambiguous,
}

#[derive(Clone, Debug, Default)]
pub struct TypeModel {
    map: HashMap<u32, NumTy>,
    defined: HashSet<u32>,
    ambiguous: HashSet<u32>,
}

impl TypeModel {
    pub fn new() -> TypeModel {
        TypeModel::default()
    }
    pub fn get(&self, id: u32) -> Option<NumTy> {
        self.map.get(&id).copied()
    }
    pub fn is_ambiguous(&self, id: u32) -> bool {
        self.ambiguous.contains(&id)
    }
    /// Width of a literal whose type is `type_id`, decided from declarations seen so far.
    pub fn width(&self, type_id: u32) -> Width {
        if self.ambiguous.contains(&type_id) {
            return Width::Ambiguous;
        }
        match self.map.get(&type_id) {
            None => Width::One,
            Some(NumTy::Int(w, _)) => match w {
                8 | 16 | 32 => Width::One,
                64 => Width::Two,
                _ => Width::Unsupported,
            },
            Some(NumTy::Float(w)) => match w {
                16 | 32 => Width::One,
                64 => Width::Two,
                _ => Width::Unsupported,
            },
        }
    }
    /// Records an instruction that was parsed successfully.
    pub fn observe(&mut self, inst: &AInst) {
        let rid = match inst.rid {
            Some(r) => r,
            None => return,
        };
        if !self.defined.insert(rid) {
            self.ambiguous.insert(rid);
        }
        let name = inst.opname();
        if name.starts_with("Type") {
            if name == "TypeInt" && inst.ops.len() >= 2 {
                if let (AVal::W(bits), AVal::W(sign)) = (&inst.ops[0].val, &inst.ops[1].val) {
                    self.map.insert(rid, NumTy::Int(*bits, *sign == 1));
                }
            } else if name == "TypeFloat" && !inst.ops.is_empty() {
                if let AVal::W(bits) = &inst.ops[0].val {
                    self.map.insert(rid, NumTy::Float(*bits));
                }
            }
        } else if let Some(t) = inst.rtype {
            if self.ambiguous.contains(&t) {
                self.ambiguous.insert(rid);
            }
            if let Some(ty) = self.map.get(&t).copied() {
                self.map.insert(rid, ty);
            }
        }
    }
}

// ---------------------------------------------------------------- loader automaton

#[derive(Clone, Copy, Debug, PartialEq, Eq, Hash, PartialOrd, Ord)]
pub enum LoadErr {
    NestedFunction,
    UnclosedFunction,
    MismatchedFunctionEnd,
    DetachedFunctionParameter,
    DetachedBlock,
    NestedBlock,
    UnclosedBlock,
    MismatchedTerminator,
    DetachedInstruction,
}

#[derive(Clone, Debug, Default, PartialEq)]
pub struct MBlock {
    pub label: usize,
    pub insts: Vec<usize>,
}
#[derive(Clone, Debug, Default, PartialEq)]
pub struct MFunc {
    pub def: usize,
    pub params: Vec<usize>,
    pub blocks: Vec<MBlock>,
    pub end: usize,
}
/// Result of a successful model load: indices into the input instruction sequence.
#[derive(Clone, Debug, Default, PartialEq)]
pub struct MModule {
    pub sections: [Vec<usize>; 11],
    pub functions: Vec<MFunc>,
}

impl MModule {
    /// Instruction indices in assembly order (sections in layout order, then functions).
    pub fn order(&self) -> Vec<usize> {
        let mut v = vec![];
        for s in &self.sections {
            v.extend(s.iter().copied());
        }
        for f in &self.functions {
            v.push(f.def);
            v.extend(f.params.iter().copied());
            for b in &f.blocks {
                v.push(b.label);
                v.extend(b.insts.iter().copied());
            }
            v.push(f.end);
        }
        v
    }
}

#[derive(Clone, Debug, PartialEq)]
pub enum LoadOutcome {
    Ok(MModule),
    /// index of the first offending instruction (== n for end-of-stream errors) and the admissible
    /// error classes
    Err { index: usize, classes: Vec<LoadErr> },
    /// the sequence uses an opcode whose placement the specification leaves open at this point
    Unspecified { index: usize },
}

#[derive(Clone, Debug, Default)]
pub struct LoaderModel {
    pub module: MModule,
    pub func: Option<MFunc>,
    pub block: Option<MBlock>,
    pub n: usize,
    /// multiple OpMemoryModel seen (outside the C01 guarantee)
    pub memory_models: usize,
    /// OpLine/OpNoLine inside a function but outside a block was seen (outside the C01 guarantee)
    pub line_in_function_outside_block: bool,
}

pub enum Step {
    Continue,
    Err(Vec<LoadErr>),
    Unspecified,
}

impl LoaderModel {
    pub fn new() -> LoaderModel {
        LoaderModel::default()
    }
    pub fn state(&self) -> (bool, bool) {
        (self.func.is_some(), self.block.is_some())
    }
    pub fn step(&mut self, opname: &str) -> Step {
        let i = self.n;
        self.n += 1;
        match spec::classify(opname) {
            Sym::Global(sec) => {
                if sec == Section::MemoryModel {
                    self.memory_models += 1;
                }
                self.module.sections[sec as usize].push(i);
            }
            Sym::Line => match &mut self.block {
                Some(b) => b.insts.push(i),
                None => {
                    if self.func.is_some() {
                        self.line_in_function_outside_block = true;
                    }
                    self.module.sections[Section::TypesGlobalValues as usize].push(i)
                }
            },
            Sym::VarUndef => {
                if self.func.is_none() {
                    self.module.sections[Section::TypesGlobalValues as usize].push(i)
                } else {
                    match &mut self.block {
                        Some(b) => b.insts.push(i),
                        None => return Step::Err(vec![LoadErr::DetachedInstruction]),
                    }
                }
            }
            Sym::Function => {
                if self.func.is_some() {
                    return Step::Err(vec![LoadErr::NestedFunction]);
                }
                self.func = Some(MFunc { def: i, ..Default::default() });
            }
            Sym::FunctionEnd => {
                if self.func.is_none() {
                    return Step::Err(vec![LoadErr::MismatchedFunctionEnd]);
                }
                if self.block.is_some() {
                    return Step::Err(vec![LoadErr::UnclosedBlock]);
                }
                let mut f = self.func.take().unwrap();
                f.end = i;
                self.module.functions.push(f);
            }
            Sym::Parameter => match &mut self.func {
                None => return Step::Err(vec![LoadErr::DetachedFunctionParameter]),
                Some(f) => f.params.push(i),
            },
            Sym::Label => {
                if self.func.is_none() {
                    return Step::Err(vec![LoadErr::DetachedBlock]);
                }
                if self.block.is_some() {
                    return Step::Err(vec![LoadErr::NestedBlock]);
                }
                self.block = Some(MBlock { label: i, insts: vec![] });
            }
            Sym::Terminator => {
                if self.block.is_none() {
                    return Step::Err(vec![LoadErr::MismatchedTerminator]);
                }
                let mut b = self.block.take().unwrap();
                b.insts.push(i);
                self.func.as_mut().unwrap().blocks.push(b);
            }
            Sym::BlockInst => match &mut self.block {
                Some(b) => b.insts.push(i),
                None => return Step::Err(vec![LoadErr::DetachedInstruction]),
            },
            Sym::Unspecified => match &mut self.block {
                // inside a block every instruction is simply appended
                Some(b) => b.insts.push(i),
                None => return Step::Unspecified,
            },
        }
        Step::Continue
    }
    pub fn finish(self) -> LoadOutcome {
        let n = self.n;
        match (self.func.is_some(), self.block.is_some()) {
            (_, true) => LoadOutcome::Err { index: n, classes: vec![LoadErr::UnclosedBlock, LoadErr::UnclosedFunction] },
            (true, false) => LoadOutcome::Err { index: n, classes: vec![LoadErr::UnclosedFunction] },
            _ => LoadOutcome::Ok(self.module),
        }
    }
}

pub fn model_load_names(names: &[String]) -> (LoadOutcome, LoaderModel) {
    let mut m = LoaderModel::new();
    for (i, n) in names.iter().enumerate() {
        match m.step(n) {
            Step::Continue => {}
            Step::Err(classes) => return (LoadOutcome::Err { index: i, classes }, m),
            Step::Unspecified => return (LoadOutcome::Unspecified { index: i }, m),
        }
    }
    let snapshot = m.clone();
    (m.finish(), snapshot)
}

pub fn model_load(insts: &[AInst]) -> (LoadOutcome, LoaderModel) {
    let names: Vec<String> = insts.iter().map(|i| db().lookup(i.opcode).map(|r| r.opname.clone()).unwrap_or_default()).collect();
    model_load_names(&names)
}
