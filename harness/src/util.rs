//! PRNG, JSON writer, report structure, panic capture, parallel stage runner.

use std::any::Any;
use std::cell::RefCell;
use std::collections::{BTreeMap, BTreeSet};
use std::fmt::Write as _;
use std::panic::{self, AssertUnwindSafe};
use std::sync::Mutex;

// ---------------------------------------------------------------- PRNG

#[derive(Clone, Debug)]
pub struct Rng(u64);

pub fn mix(mut z: u64) -> u64 {
    z = z.wrapping_add(0x9E37_79B9_7F4A_7C15);
    z = (z ^ (z >> 30)).wrapping_mul(0xBF58_476D_1CE4_E5B9);
    z = (z ^ (z >> 27)).wrapping_mul(0x94D0_49BB_1331_11EB);
    z ^ (z >> 31)
}

pub fn hash_str(s: &str) -> u64 {
    let mut h: u64 = 0xcbf2_9ce4_8422_2325;
    for b in s.bytes() {
        h ^= b as u64;
        h = h.wrapping_mul(0x0000_0100_0000_01b3);
    }
    h
}

impl Rng {
    pub fn new(seed: u64) -> Rng {
        Rng(mix(seed ^ 0xA5A5_5A5A_1234_5678))
    }
    /// The RNG of case `idx` of stage `stage` under run seed `seed`: every case is
    /// reproducible on its own (this is what replay files record).
    pub fn for_case(seed: u64, stage: &str, idx: u64) -> Rng {
        Rng::new(mix(seed).wrapping_add(mix(hash_str(stage))) ^ mix(idx.wrapping_mul(0x2545_F491_4F6C_DD1D)))
    }
    pub fn next(&mut self) -> u64 {
        self.0 = self.0.wrapping_add(0x9E37_79B9_7F4A_7C15);
        let mut z = self.0;
        z = (z ^ (z >> 30)).wrapping_mul(0xBF58_476D_1CE4_E5B9);
        z = (z ^ (z >> 27)).wrapping_mul(0x94D0_49BB_1331_11EB);
        z ^ (z >> 31)
    }
    pub fn u32(&mut self) -> u32 {
        (self.next() >> 32) as u32
    }
    /// uniform in 0..n (n > 0)
    pub fn below(&mut self, n: usize) -> usize {
        debug_assert!(n > 0);
        (self.next() % (n as u64)) as usize
    }
    pub fn range(&mut self, lo: usize, hi_incl: usize) -> usize {
        lo + self.below(hi_incl - lo + 1)
    }
    pub fn chance(&mut self, num: u32, den: u32) -> bool {
        (self.next() % den as u64) < num as u64
    }
    pub fn pick<'a, T>(&mut self, xs: &'a [T]) -> &'a T {
        &xs[self.below(xs.len())]
    }
    /// A 32-bit value biased towards "interesting" numbers.
    pub fn word(&mut self) -> u32 {
        match self.below(10) {
            0 => 0,
            1 => 1,
            2 => u32::MAX,
            3 => 0x8000_0000,
            4 => self.below(16) as u32,
            5 => 1u32 << self.below(32),
            6 => (self.below(70000)) as u32,
            _ => self.u32(),
        }
    }
    pub fn pick_mut<'a, T>(&mut self, xs: &'a mut [T]) -> Option<&'a mut T> {
        if xs.is_empty() {
            None
        } else {
            let i = self.below(xs.len());
            Some(&mut xs[i])
        }
    }
    pub fn shuffle<T>(&mut self, xs: &mut [T]) {
        for i in (1..xs.len()).rev() {
            let j = self.below(i + 1);
            xs.swap(i, j);
        }
    }
}

// ---------------------------------------------------------------- JSON

#[derive(Clone, Debug, PartialEq)]
pub enum Json {
    Null,
    Bool(bool),
    Int(i128),
    Num(f64),
    Str(String),
    Arr(Vec<Json>),
    Obj(Vec<(String, Json)>),
}

impl Json {
    pub fn obj() -> Json {
        Json::Obj(vec![])
    }
    pub fn set(mut self, k: &str, v: impl Into<Json>) -> Json {
        if let Json::Obj(ref mut kv) = self {
            let v = v.into();
            if let Some(e) = kv.iter_mut().find(|(kk, _)| kk == k) {
                e.1 = v;
            } else {
                kv.push((k.to_string(), v));
            }
        }
        self
    }
    pub fn put(&mut self, k: &str, v: impl Into<Json>) {
        let me = std::mem::replace(self, Json::Null);
        *self = me.set(k, v);
    }
    pub fn get(&self, k: &str) -> Option<&Json> {
        match self {
            Json::Obj(kv) => kv.iter().find(|(kk, _)| kk == k).map(|(_, v)| v),
            _ => None,
        }
    }
    pub fn as_str(&self) -> Option<&str> {
        match self {
            Json::Str(s) => Some(s),
            _ => None,
        }
    }
    pub fn as_u64(&self) -> Option<u64> {
        match self {
            Json::Int(i) => Some(*i as u64),
            _ => None,
        }
    }
    pub fn as_arr(&self) -> Option<&Vec<Json>> {
        match self {
            Json::Arr(a) => Some(a),
            _ => None,
        }
    }
    pub fn write(&self, out: &mut String) {
        match self {
            Json::Null => out.push_str("null"),
            Json::Bool(b) => out.push_str(if *b { "true" } else { "false" }),
            Json::Int(i) => {
                let _ = write!(out, "{}", i);
            }
            Json::Num(f) => {
                if f.is_finite() {
                    let _ = write!(out, "{}", f);
                } else {
                    out.push_str("null");
                }
            }
            Json::Str(s) => {
                out.push('"');
                for c in s.chars() {
                    match c {
                        '"' => out.push_str("\\\""),
                        '\\' => out.push_str("\\\\"),
                        '\n' => out.push_str("\\n"),
                        '\r' => out.push_str("\\r"),
                        '\t' => out.push_str("\\t"),
                        c if (c as u32) < 0x20 => {
                            let _ = write!(out, "\\u{:04x}", c as u32);
                        }
                        c => out.push(c),
                    }
                }
                out.push('"');
            }
            Json::Arr(a) => {
                out.push('[');
                for (i, v) in a.iter().enumerate() {
                    if i > 0 {
                        out.push(',');
                    }
                    v.write(out);
                }
                out.push(']');
            }
            Json::Obj(kv) => {
                out.push('{');
                for (i, (k, v)) in kv.iter().enumerate() {
                    if i > 0 {
                        out.push(',');
                    }
                    Json::Str(k.clone()).write(out);
                    out.push(':');
                    v.write(out);
                }
                out.push('}');
            }
        }
    }
    pub fn to_string(&self) -> String {
        let mut s = String::new();
        self.write(&mut s);
        s
    }
}

impl From<&str> for Json {
    fn from(s: &str) -> Json {
        Json::Str(s.to_string())
    }
}
impl From<String> for Json {
    fn from(s: String) -> Json {
        Json::Str(s)
    }
}
impl From<bool> for Json {
    fn from(b: bool) -> Json {
        Json::Bool(b)
    }
}
macro_rules! json_int {
    ($($t:ty),*) => { $(impl From<$t> for Json { fn from(v: $t) -> Json { Json::Int(v as i128) } })* };
}
json_int!(u8, u16, u32, u64, usize, i32, i64);
impl From<f64> for Json {
    fn from(v: f64) -> Json {
        Json::Num(v)
    }
}
impl<T: Into<Json>> From<Vec<T>> for Json {
    fn from(v: Vec<T>) -> Json {
        Json::Arr(v.into_iter().map(Into::into).collect())
    }
}

/// Minimal JSON parser (objects, arrays, strings, integers, bools, null) for replay files.
pub fn parse_json(s: &str) -> Option<Json> {
    let b = s.as_bytes();
    let mut i = 0;
    let v = pj(b, &mut i)?;
    Some(v)
}
fn ws(b: &[u8], i: &mut usize) {
    while *i < b.len() && (b[*i] as char).is_whitespace() {
        *i += 1;
    }
}
fn pj(b: &[u8], i: &mut usize) -> Option<Json> {
    ws(b, i);
    match *b.get(*i)? {
        b'{' => {
            *i += 1;
            let mut kv = vec![];
            loop {
                ws(b, i);
                if *b.get(*i)? == b'}' {
                    *i += 1;
                    break;
                }
                let k = match pj(b, i)? {
                    Json::Str(s) => s,
                    _ => return None,
                };
                ws(b, i);
                if *b.get(*i)? != b':' {
                    return None;
                }
                *i += 1;
                let v = pj(b, i)?;
                kv.push((k, v));
                ws(b, i);
                if *b.get(*i)? == b',' {
                    *i += 1;
                }
            }
            Some(Json::Obj(kv))
        }
        b'[' => {
            *i += 1;
            let mut a = vec![];
            loop {
                ws(b, i);
                if *b.get(*i)? == b']' {
                    *i += 1;
                    break;
                }
                a.push(pj(b, i)?);
                ws(b, i);
                if *b.get(*i)? == b',' {
                    *i += 1;
                }
            }
            Some(Json::Arr(a))
        }
        b'"' => {
            *i += 1;
            let mut out: Vec<u8> = vec![];
            loop {
                let c = *b.get(*i)?;
                *i += 1;
                match c {
                    b'"' => break,
                    b'\\' => {
                        let e = *b.get(*i)?;
                        *i += 1;
                        match e {
                            b'n' => out.push(b'\n'),
                            b'r' => out.push(b'\r'),
                            b't' => out.push(b'\t'),
                            b'u' => {
                                let h = std::str::from_utf8(b.get(*i..*i + 4)?).ok()?;
                                let cp = u32::from_str_radix(h, 16).ok()?;
                                *i += 4;
                                let ch = char::from_u32(cp).unwrap_or('?');
                                let mut buf = [0u8; 4];
                                out.extend_from_slice(ch.encode_utf8(&mut buf).as_bytes());
                            }
                            other => out.push(other),
                        }
                    }
                    c => out.push(c),
                }
            }
            Some(Json::Str(String::from_utf8_lossy(&out).into_owned()))
        }
        b't' => {
            *i += 4;
            Some(Json::Bool(true))
        }
        b'f' => {
            *i += 5;
            Some(Json::Bool(false))
        }
        b'n' => {
            *i += 4;
            Some(Json::Null)
        }
        _ => {
            let st = *i;
            while *i < b.len() && (b[*i] == b'-' || b[*i] == b'+' || b[*i] == b'.' || b[*i] == b'e' || b[*i] == b'E' || b[*i].is_ascii_digit()) {
                *i += 1;
            }
            let t = std::str::from_utf8(&b[st..*i]).ok()?;
            if let Ok(v) = t.parse::<i128>() {
                Some(Json::Int(v))
            } else {
                t.parse::<f64>().ok().map(Json::Num)
            }
        }
    }
}

pub fn hex_words(ws: &[u32]) -> String {
    let mut s = String::new();
    for (i, w) in ws.iter().enumerate() {
        if i > 0 {
            s.push(' ');
        }
        let _ = write!(s, "{:08x}", w);
    }
    s
}
pub fn hex_bytes(bs: &[u8]) -> String {
    let mut s = String::with_capacity(bs.len() * 2);
    for b in bs {
        let _ = write!(s, "{:02x}", b);
    }
    s
}
pub fn unhex_bytes(s: &str) -> Vec<u8> {
    fn nib(c: u8) -> Option<u8> {
        match c {
            b'0'..=b'9' => Some(c - b'0'),
            b'a'..=b'f' => Some(c - b'a' + 10),
            b'A'..=b'F' => Some(c - b'A' + 10),
            _ => None,
        }
    }
    let mut out = Vec::with_capacity(s.len() / 2);
    let mut hi: Option<u8> = None;
    for c in s.bytes() {
        if let Some(n) = nib(c) {
            match hi.take() {
                None => hi = Some(n),
                Some(h) => out.push((h << 4) | n),
            }
        }
    }
    out
}
pub fn words_to_bytes(ws: &[u32]) -> Vec<u8> {
    let mut v = Vec::with_capacity(ws.len() * 4);
    for w in ws {
        v.extend_from_slice(&w.to_le_bytes());
    }
    v
}

// ---------------------------------------------------------------- panic capture

#[derive(Clone, Debug)]
pub struct Panic {
    pub msg: String,
    pub loc: String,
    pub budget: bool,
}

thread_local! {
    static LAST_PANIC: RefCell<Option<(String, String)>> = RefCell::new(None);
    static QUIET: RefCell<bool> = RefCell::new(false);
}

pub fn install_panic_hook() {
    let default = panic::take_hook();
    panic::set_hook(Box::new(move |info| {
        let quiet = QUIET.with(|q| *q.borrow());
        let loc = info.location().map(|l| format!("{}:{}", l.file(), l.line())).unwrap_or_default();
        let msg = payload_msg(info.payload());
        LAST_PANIC.with(|p| *p.borrow_mut() = Some((msg, loc)));
        if !quiet {
            default(info);
        }
    }));
}

fn payload_msg(p: &(dyn Any + Send)) -> String {
    if let Some(s) = p.downcast_ref::<&str>() {
        s.to_string()
    } else if let Some(s) = p.downcast_ref::<String>() {
        s.clone()
    } else if p.downcast_ref::<rspirv::verif::StepBudgetExceeded>().is_some() {
        "StepBudgetExceeded".to_string()
    } else {
        "<non-string panic payload>".to_string()
    }
}

/// Runs `f`, converting a panic into a value. The panic message printer is silenced meanwhile.
pub fn catch<T>(f: impl FnOnce() -> T) -> Result<T, Panic> {
    QUIET.with(|q| *q.borrow_mut() = true);
    LAST_PANIC.with(|p| *p.borrow_mut() = None);
    let r = panic::catch_unwind(AssertUnwindSafe(f));
    QUIET.with(|q| *q.borrow_mut() = false);
    match r {
        Ok(v) => Ok(v),
        Err(payload) => {
            let budget = payload.downcast_ref::<rspirv::verif::StepBudgetExceeded>().is_some();
            let (msg, loc) = LAST_PANIC.with(|p| p.borrow_mut().take()).unwrap_or_else(|| (payload_msg(&*payload), String::new()));
            rspirv::verif::set_step_budget(None);
            Err(Panic { msg, loc, budget })
        }
    }
}

/// A short, stable key for a panic site: file name + line stripped of directories, plus the message
/// with digits collapsed (so that "index 60 out of range for slice of length 40" groups by shape).
pub fn panic_key(p: &Panic) -> String {
    let file = p.loc.rsplit('/').next().unwrap_or("").to_string();
    let mut m = String::new();
    let mut last_digit = false;
    for c in p.msg.chars().take(80) {
        if c.is_ascii_digit() {
            if !last_digit {
                m.push('N');
            }
            last_digit = true;
        } else {
            last_digit = false;
            m.push(if c == ' ' { '_' } else { c });
        }
    }
    format!("{}:{}", file, m)
}

// ---------------------------------------------------------------- report

#[derive(Clone, Debug)]
pub struct Violation {
    pub sig: String,
    pub detail: String,
    pub replay: Json,
    pub count: u64,
}

#[derive(Default)]
pub struct Report {
    pub property: String,
    pub stage_cases: BTreeMap<String, u64>,
    pub evaluations: u64,
    pub distinct: BTreeSet<String>,
    pub rule: String,
    pub samples: Vec<Json>,
    pub counters: BTreeMap<String, u64>,
    pub sets: BTreeMap<String, BTreeSet<String>>,
    pub extra: Vec<(String, Json)>,
    pub violations: BTreeMap<String, Violation>,
    pub assumptions: Vec<String>,
    pub exhaustive: bool,
    pub inconclusive: Vec<String>,
}

impl Report {
    pub fn new(property: &str) -> Report {
        Report { property: property.to_string(), ..Default::default() }
    }
    pub fn violation(&mut self, sig: impl Into<String>, detail: impl Into<String>, replay: Json) {
        let sig = sig.into();
        let e = self.violations.entry(sig.clone()).or_insert_with(|| {
            let v = Violation { sig, detail: detail.into(), replay, count: 0 };
            journal(&v);
            v
        });
        e.count += 1;
    }
    pub fn count(&mut self, key: &str, n: u64) {
        *self.counters.entry(key.to_string()).or_insert(0) += n;
    }
    pub fn seen(&mut self, set: &str, item: impl Into<String>) {
        self.sets.entry(set.to_string()).or_default().insert(item.into());
    }
    pub fn nontrivial(&mut self, key: impl Into<String>) {
        self.distinct.insert(key.into());
    }
    pub fn sample(&mut self, j: Json) {
        if self.samples.len() < 6 {
            self.samples.push(j);
        }
    }
    pub fn merge(&mut self, o: Report) {
        self.evaluations += o.evaluations;
        for (k, v) in o.stage_cases {
            *self.stage_cases.entry(k).or_insert(0) += v;
        }
        self.distinct.extend(o.distinct);
        for s in o.samples {
            self.sample(s);
        }
        for (k, v) in o.counters {
            *self.counters.entry(k).or_insert(0) += v;
        }
        for (k, v) in o.sets {
            self.sets.entry(k).or_default().extend(v);
        }
        for (k, v) in o.violations {
            let e = self.violations.entry(k).or_insert_with(|| Violation { count: 0, ..v.clone() });
            e.count += v.count;
        }
        for a in o.assumptions {
            if !self.assumptions.contains(&a) {
                self.assumptions.push(a);
            }
        }
        self.inconclusive.extend(o.inconclusive);
        self.extra.extend(o.extra);
    }
    pub fn to_json(&self) -> Json {
        let mut sets = Json::obj();
        for (k, v) in &self.sets {
            let items: Vec<Json> = v.iter().take(40).map(|s| Json::Str(s.clone())).collect();
            sets.put(k, Json::obj().set("count", v.len()).set("first", Json::Arr(items)));
        }
        let mut counters = Json::obj();
        for (k, v) in &self.counters {
            counters.put(k, *v);
        }
        let mut stages = Json::obj();
        for (k, v) in &self.stage_cases {
            stages.put(k, *v);
        }
        let viol: Vec<Json> = self
            .violations
            .values()
            .map(|v| Json::obj().set("sig", v.sig.clone()).set("detail", v.detail.clone()).set("count", v.count).set("replay", v.replay.clone()))
            .collect();
        let mut j = Json::obj()
            .set("property", self.property.clone())
            .set("evaluations", self.evaluations)
            .set("distinct_nontrivial", self.distinct.len())
            .set("distinct_keys_first", Json::Arr(self.distinct.iter().take(120).map(|s| Json::Str(s.clone())).collect()))
            .set("rule", self.rule.clone())
            .set("samples", Json::Arr(self.samples.clone()))
            .set("stages", stages)
            .set("counters", counters)
            .set("sets", sets)
            .set("exhaustive", self.exhaustive)
            .set("assumptions", self.assumptions.clone())
            .set("inconclusive", self.inconclusive.clone())
            .set("violations", Json::Arr(viol));
        for (k, v) in &self.extra {
            j.put(k, v.clone());
        }
        j
    }
}

// ---------------------------------------------------------------- run configuration and stage runner

#[derive(Clone, Debug)]
pub struct Cfg {
    pub tier_thorough: bool,
    pub seed: u64,
    pub threads: usize,
    /// Only run this (stage, index) case (replay mode).
    pub only: Option<(String, u64)>,
    /// Scale factor applied to case counts (used by sanitizer stages that are much slower).
    pub scale_div: u64,
    pub mode: String,
    /// (i, n): only run cases with idx % n == i (sharded sanitizer processes)
    pub shard: Option<(u64, u64)>,
    /// corpus file: written by the debug stage, read by the Miri stage (keeps generators out of Miri)
    pub corpus: Option<String>,
}

impl Cfg {
    pub fn n(&self, quick: u64, thorough: u64) -> u64 {
        let n = if self.tier_thorough { thorough } else { quick };
        std::cmp::max(1, n / self.scale_div.max(1))
    }
}

/// Runs cases `0..n` of a stage on `cfg.threads` threads. Each case gets its own reproducible RNG.
/// `f(idx, rng, report)`; per-thread reports are merged into `rep`.
/// Journal of first observations: one JSON line per (worker, signature), appended and flushed at the moment the
/// oracle reports it. When the process under observation is killed from outside (the code under test exhausts
/// memory, aborts in an allocation failure) the driver still has what the monitors saw before that.
static JOURNAL: std::sync::OnceLock<Mutex<std::fs::File>> = std::sync::OnceLock::new();

pub fn open_journal(path: &str) {
    if let Ok(f) = std::fs::OpenOptions::new().create(true).append(true).open(path) {
        let _ = JOURNAL.set(Mutex::new(f));
    }
}

fn journal(v: &Violation) {
    if let Some(j) = JOURNAL.get() {
        use std::io::Write;
        let line = Json::obj().set("sig", v.sig.clone()).set("detail", v.detail.chars().take(4000).collect::<String>()).set("replay", v.replay.clone()).to_string();
        if let Ok(mut f) = j.lock() {
            let _ = f.write_all(format!("{}\n", line.replace('\n', " ")).as_bytes());
            let _ = f.flush();
        }
    }
}

pub fn run_stage<F>(cfg: &Cfg, rep: &mut Report, stage: &str, n: u64, f: F)
where
    F: Fn(u64, &mut Rng, &mut Report) + Sync,
{
    if let Some((s, idx)) = &cfg.only {
        if s != stage {
            return;
        }
        let mut r = Report::new(&rep.property);
        let mut rng = Rng::for_case(cfg.seed, stage, *idx);
        f(*idx, &mut rng, &mut r);
        r.evaluations += 1;
        rep.merge(r);
        return;
    }
    let threads = cfg.threads.max(1).min(n.max(1) as usize);
    let merged = Mutex::new(Report::new(&rep.property));
    let next = std::sync::atomic::AtomicU64::new(0);
    let chunk: u64 = std::cmp::max(1, n / (threads as u64 * 32));
    std::thread::scope(|sc| {
        for _ in 0..threads {
            sc.spawn(|| {
                let mut local = Report::new(&rep.property);
                loop {
                    let start = next.fetch_add(chunk, std::sync::atomic::Ordering::Relaxed);
                    if start >= n {
                        break;
                    }
                    let end = std::cmp::min(n, start + chunk);
                    for idx in start..end {
                        if let Some((si, sn)) = cfg.shard {
                            if idx % sn != si {
                                continue;
                            }
                        }
                        let mut rng = Rng::for_case(cfg.seed, stage, idx);
                        let r = catch(|| f(idx, &mut rng, &mut local));
                        if let Err(p) = r {
                            // A panic escaping a monitor is a harness error, never a property verdict.
                            local.inconclusive.push(format!("harness panic in stage {} case {}: {} at {}", stage, idx, p.msg, p.loc));
                        }
                        local.evaluations += 1;
                    }
                }
                merged.lock().unwrap().merge(local);
            });
        }
    });
    let m = merged.into_inner().unwrap();
    *rep.stage_cases.entry(stage.to_string()).or_insert(0) += n;
    rep.merge(m);
}

pub fn replay_ref(cfg: &Cfg, stage: &str, idx: u64) -> Json {
    Json::obj().set("stage", stage).set("seed", cfg.seed).set("index", idx).set("tier", if cfg.tier_thorough { "thorough" } else { "quick" }).set("mode", cfg.mode.clone())
}
